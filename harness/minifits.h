// A small FITS codec written from the FITS standard (blocks of 2880 bytes, 80-character cards, big-endian
// image data, IMAGE extensions), independent of cfitsio: used to check the bytes the library writes and to
// produce the files the library is asked to read (C06, C07, C08).
#ifndef VERIF_MINIFITS_H
#define VERIF_MINIFITS_H
#include <string>
#include <vector>
#include <cstring>
#include <cstdint>
#include <cmath>
#include <sstream>
#include <stdexcept>
#include <algorithm>

namespace mf {

struct Card { std::string key, val; char kind; };   // kind: 'i' integer, 'f' real, 's' string, 'l' logical, '?' other
struct HDU {
	std::string name;              // "PRIMARY" or EXTNAME
	int bitpix = 0;
	std::vector<long> axes;        // NAXIS1.. (FITS order)
	std::vector<Card> cards;       // everything that is not structural (SIMPLE/XTENSION/BITPIX/NAXIS*/EXTEND/PCOUNT/GCOUNT/EXTNAME/COMMENT/END)
	std::vector<uint64_t> data;    // raw element bit patterns (32 or 64 bit), host order
	bool has_extname = false;
};
struct File { std::vector<HDU> hdus; };

inline std::string rstrip(std::string s) { while (!s.empty() && s.back() == ' ') s.pop_back(); return s; }
inline bool structural(const std::string& k) {
	static const char* S[] = {"SIMPLE", "XTENSION", "BITPIX", "NAXIS", "EXTEND", "PCOUNT", "GCOUNT", "EXTNAME", "COMMENT", "END", "HISTORY", ""};
	for (auto s : S) if (k == s) return true;
	if (k.compare(0, 5, "NAXIS") == 0) return true;
	return false;
}

// parse one 80-character card
inline bool parse_card(const char* c, std::string& key, std::string& val, char& kind) {
	std::string card(c, 80);
	if (card.compare(0, 9, "HIERARCH ") == 0) {
		size_t eq = card.find('=');
		if (eq == std::string::npos) return false;
		key = rstrip(card.substr(9, eq - 9));
		card = std::string(8, ' ') + "=" + card.substr(eq + 1);       // fall through to the value parser
		card.resize(80, ' ');
	} else {
		key = rstrip(card.substr(0, 8));
		if (card[8] != '=') { val = rstrip(card.substr(8)); kind = '?'; return true; }
	}
	size_t p = 9; while (p < 80 && card[p] == ' ') p++;
	if (p >= 80) { val = ""; kind = '?'; return true; }
	if (card[p] == '\'') {
		std::string s; p++;
		while (p < 80) { if (card[p] == '\'') { if (p + 1 < 80 && card[p + 1] == '\'') { s += '\''; p += 2; continue; } break; } s += card[p++]; }
		val = rstrip(s); kind = 's'; return true;
	}
	size_t e = card.find('/', p); std::string v = rstrip(card.substr(p, e == std::string::npos ? std::string::npos : e - p));
	val = v;
	if (v == "T" || v == "F") kind = 'l';
	else if (v.find_first_of(".EeDd") != std::string::npos) kind = 'f';
	else kind = 'i';
	return true;
}

inline File parse(const unsigned char* b, size_t n) {
	File f; size_t pos = 0;
	while (pos + 2880 <= n) {
		HDU h; bool end = false; long naxis = -1; bool first = true;
		while (!end) {
			if (pos + 2880 > n) throw std::runtime_error("minifits: header runs past the end of the file");
			for (int c = 0; c < 36 && !end; c++) {
				std::string key, val; char kind;
				if (!parse_card((const char*)b + pos + 80 * c, key, val, kind)) continue;
				if (first) { if (key != "SIMPLE" && key != "XTENSION") throw std::runtime_error("minifits: HDU does not start with SIMPLE/XTENSION"); first = false; if (key == "SIMPLE") h.name = "PRIMARY"; continue; }
				if (key == "END") { end = true; break; }
				if (key == "BITPIX") h.bitpix = atoi(val.c_str());
				else if (key == "NAXIS") { naxis = atol(val.c_str()); h.axes.assign(naxis, 0); }
				else if (key.compare(0, 5, "NAXIS") == 0) { long i = atol(key.c_str() + 5); if (i >= 1 && i <= naxis) h.axes[i - 1] = atol(val.c_str()); }
				else if (key == "EXTNAME") { h.name = val; h.has_extname = true; }
				else if (!structural(key)) h.cards.push_back(Card{key, val, kind});
			}
			pos += 2880;
		}
		size_t nel = h.axes.empty() ? 0 : 1; for (long a : h.axes) nel *= (size_t)a;
		size_t width = (size_t)std::abs(h.bitpix) / 8, bytes = nel * width;
		if (pos + bytes > n) throw std::runtime_error("minifits: data unit runs past the end of the file");
		for (size_t i = 0; i < nel; i++) { uint64_t v = 0; for (size_t k = 0; k < width; k++) v = (v << 8) | b[pos + i * width + k]; h.data.push_back(v); }
		pos += (bytes + 2879) / 2880 * 2880;
		f.hdus.push_back(h);
	}
	return f;
}

inline std::string card(const std::string& key, const std::string& valtext) {
	std::string c;
	if (key.size() <= 8 && key.find(' ') == std::string::npos) { c = key; c.resize(8, ' '); c += "= "; if (valtext.size() < 20 && valtext[0] != '\'') c += std::string(20 - valtext.size(), ' '); c += valtext; }
	else c = "HIERARCH " + key + " = " + valtext;
	c.resize(80, ' '); return c;
}
inline std::string quoted(const std::string& s) { std::string q = "'"; for (char ch : s) { q += ch; if (ch == '\'') q += '\''; } while (q.size() < 9) q += ' '; return q + "'"; }

// serialise; each card's val is written verbatim for kinds i/f/l and quoted for 's'
inline std::vector<unsigned char> build(const File& f) {
	std::vector<unsigned char> out;
	auto put = [&](const std::string& c) { out.insert(out.end(), c.begin(), c.end()); };
	for (size_t hi = 0; hi < f.hdus.size(); hi++) {
		const HDU& h = f.hdus[hi]; size_t start = out.size();
		if (hi == 0) put(card("SIMPLE", "T")); else put(card("XTENSION", "'IMAGE   '"));
		put(card("BITPIX", std::to_string(h.bitpix))); put(card("NAXIS", std::to_string(h.axes.size())));
		for (size_t i = 0; i < h.axes.size(); i++) put(card("NAXIS" + std::to_string(i + 1), std::to_string(h.axes[i])));
		if (hi == 0) put(card("EXTEND", "T")); else { put(card("PCOUNT", "0")); put(card("GCOUNT", "1")); }
		for (auto& c : h.cards) { if (c.kind == 'r') { std::string raw = c.val; raw.resize(80, ' '); put(raw); } else put(card(c.key, c.kind == 's' ? quoted(c.val) : c.val)); }   // 'r': the 80 characters verbatim
		if (hi != 0 && h.has_extname) put(card("EXTNAME", quoted(h.name)));
		{ std::string e = "END"; e.resize(80, ' '); put(e); }
		while ((out.size() - start) % 2880) out.push_back(' ');
		size_t width = (size_t)std::abs(h.bitpix) / 8, dstart = out.size();
		for (uint64_t v : h.data) for (size_t k = 0; k < width; k++) out.push_back((unsigned char)(v >> (8 * (width - 1 - k))));
		while ((out.size() - dstart) % 2880) out.push_back(0);
	}
	return out;
}

inline std::string hex(uint64_t v, int width) { char b[20]; snprintf(b, 20, width == 4 ? "%08llx" : "%016llx", (unsigned long long)v); return b; }

// JSON model of a file for the trace specifications: card values normalised (integers as text, reals as the bit
// pattern of the parsed double, strings unquoted without trailing blanks)
inline std::string to_json(const File& f) {
	std::ostringstream o; o << "[";
	for (size_t hi = 0; hi < f.hdus.size(); hi++) {
		const HDU& h = f.hdus[hi];
		o << (hi ? "," : "") << "{\"name\":\"" << h.name << "\",\"bitpix\":" << h.bitpix << ",\"axes\":[";
		for (size_t i = 0; i < h.axes.size(); i++) o << (i ? "," : "") << h.axes[i];
		o << "],\"cards\":[";
		for (size_t i = 0; i < h.cards.size(); i++) {
			std::string v = h.cards[i].val;
			if (h.cards[i].kind == 'f') { double d = strtod(v.c_str(), nullptr); uint64_t u; memcpy(&u, &d, 8); v = hex(u, 8); }
			std::string e; for (char ch : v) { if (ch == '"' || ch == '\\') e += '\\'; e += ch; }
			std::string ek; for (char ch : h.cards[i].key) { if (ch == '"' || ch == '\\') ek += '\\'; ek += ch; }
			o << (i ? "," : "") << "[\"" << ek << "\",\"" << e << "\"]";
		}
		o << "],\"data\":[";
		int w = std::abs(h.bitpix) / 8;
		for (size_t i = 0; i < h.data.size(); i++) o << (i ? "," : "") << "\"" << hex(h.data[i], w) << "\"";
		o << "]}";
	}
	o << "]"; return o.str();
}
}   // namespace mf
#endif
