// C20: executes operation histories (from Gen_Lifecycle or own random ones) on real splinetable<CountingAlloc>
// objects; logs per call the projected object before/after, the outcome, the live bytes of the object's
// allocator ledger and allocator misuse, for Trace_Lifecycle.  Every history runs in a forked child.
//   life_driver replay <histories.ndjson> <out.ndjson> <seed>
#include "counting_alloc.h"
#include "evalapi.h"
#include <fstream>
#include <iostream>
#include <sys/mman.h>
#include <fcntl.h>

typedef photospline::splinetable<CountingAlloc<void>> CTable;
static std::string g_dir;
static char* g_marker;   // shared: what the child is doing right now

// ------------------------------------------------------------------ projection
static long digest_of(const uint32_t ndim, const double* const* knots, const uint64_t* nknots, const float* coef, uint64_t nc) {
	uint64_t h = 1469598103934665603ull;
	auto mix = [&](const void* p, size_t n) { const unsigned char* c = (const unsigned char*)p; for (size_t i = 0; i < n; i++) { h ^= c[i]; h *= 1099511628211ull; } };
	for (uint32_t d = 0; d < ndim; d++) mix(knots[d], nknots[d] * 8);
	mix(coef, nc * 4);
	return (long)(h % 1000000007ull);
}
template <class T> static std::string meta(const T& t) {
	std::ostringstream o; uint32_t n = t.get_ndim();
	o << "{\"ndim\":" << n << ",\"order\":[";
	for (uint32_t d = 0; d < n; d++) o << (d ? "," : "") << t.get_order(d);
	o << "],\"nknots\":[";
	for (uint32_t d = 0; d < n; d++) o << (d ? "," : "") << t.get_nknots(d);
	o << "],\"naxes\":[";
	for (uint32_t d = 0; d < n; d++) o << (d ? "," : "") << t.get_ncoeffs(d);
	o << "],\"ext\":" << (n && PVA::has_extents(t) ? "true" : "false") << ",\"per\":" << (n && PVA::has_periods(t) ? "true" : "false") << ",\"aux\":[";
	for (uint32_t i = 0; i < PVA::naux(t); i++) o << (i ? "," : "") << "[" << strlen(PVA::auxkey(t, i)) << "," << strlen(PVA::auxval(t, i)) << "]";
	long dg = 0;
	if (n) { std::vector<const double*> k(n); std::vector<uint64_t> nk(n); for (uint32_t d = 0; d < n; d++) { k[d] = t.get_knots(d); nk[d] = t.get_nknots(d); } dg = digest_of(n, k.data(), nk.data(), t.get_coefficients(), t.get_ncoeffs()); }
	o << "],\"digest\":" << dg << "}"; return o.str();
}
static const char* EMPTY_META = "{\"ndim\":0,\"order\":[],\"nknots\":[],\"naxes\":[],\"ext\":false,\"per\":false,\"aux\":[],\"digest\":0}";

// ------------------------------------------------------------------ file catalogue
struct FileEnt { std::string path; bool valid; std::string want; std::vector<char> bytes; };
static std::map<int, FileEnt> g_files;
static std::vector<char> slurp(const std::string& p) { std::ifstream f(p, std::ios::binary); return std::vector<char>((std::istreambuf_iterator<char>(f)), std::istreambuf_iterator<char>()); }
static void spit(const std::string& p, const char* d, size_t n) { std::ofstream f(p, std::ios::binary); f.write(d, n); }

static void make_files() {
	Rng rng(7);
	auto mk = [&](int id, TableSpec s, std::vector<std::pair<std::string, std::string>> aux) {
		s.coeffs.resize(s.ncoeffs()); for (auto& c : s.coeffs) c = (float)rng.range(-2, 2);
		Table t; PVA::build(t, s, PAD_ZERO);
		for (auto& a : aux) t.write_key(a.first.c_str(), a.second.c_str());
		FileEnt e; e.path = g_dir + "/valid" + std::to_string(id) + ".fits"; e.valid = true;
		t.write_fits(e.path); e.want = meta(t); e.bytes = slurp(e.path); g_files[id] = e;
	};
	TableSpec a; a.ndim = 1; a.order = {2}; a.knots = {{0, 1, 2, 3, 4, 5, 6, 7, 8, 9}}; mk(1, a, {});
	TableSpec b; b.ndim = 2; b.order = {1, 3}; b.knots = {{0, 1, 2, 4, 5, 6}, {-3, -2, -1, 0, 1, 2, 3, 4, 6}}; mk(2, b, {{"KEYA", "5"}, {"ALONGERKEYNAME", "it's text"}});
	TableSpec c; c.ndim = 3; c.order = {0, 1, 2}; c.knots = {{0, 1, 2}, {0, 1, 2, 3, 5}, {0, 1, 2, 3, 4, 5, 7}}; c.periods = {0, 6.25, 0}; mk(3, c, {{"NOTE", "x"}});
	auto inv = [&](int id, const std::string& name) { FileEnt e; e.path = g_dir + "/" + name; e.valid = false; e.want = EMPTY_META; return g_files[id] = e, &g_files[id]; };
	inv(11, "does_not_exist.fits");
	{ FileEnt* e = inv(12, "truncated_head.fits"); spit(e->path, g_files[2].bytes.data(), 2880); }
	{ FileEnt* e = inv(13, "no_knots1.fits"); spit(e->path, g_files[2].bytes.data(), g_files[2].bytes.size());
	  fitsfile* f; int st = 0; fits_open_file(&f, e->path.c_str(), READWRITE, &st); fits_movnam_hdu(f, IMAGE_HDU, (char*)"KNOTS1", 0, &st); fits_delete_hdu(f, nullptr, &st); fits_close_file(f, &st); }
	{ FileEnt* e = inv(14, "no_order.fits"); spit(e->path, g_files[1].bytes.data(), g_files[1].bytes.size());
	  fitsfile* f; int st = 0; fits_open_file(&f, e->path.c_str(), READWRITE, &st); fits_delete_key(f, "ORDER0", &st); fits_close_file(f, &st); }
	{ FileEnt* e = inv(15, "not_fits.txt"); std::string t = "this is not a FITS file\n"; spit(e->path, t.data(), t.size()); }
	{ FileEnt* e = inv(16, "truncated_tail.fits"); spit(e->path, g_files[3].bytes.data(), g_files[3].bytes.size() - 4 * 2880); }
	for (auto& kv : g_files) if (!kv.second.valid && kv.first != 11) kv.second.bytes = slurp(kv.second.path);
}

// ------------------------------------------------------------------ the history runner
struct Runner {
	FILE* out; std::map<int, CTable*> objs; int next_ledger = 1; Rng rng; std::string tag;
	Runner(FILE* o, uint64_t seed) : out(o), rng(seed) {}
	long errs_total() { long n = 0; for (auto& l : AllocRegistry::get().ledgers) n += (long)l.second.errors.size(); return n; }
	long live(CTable* t) { return AllocRegistry::get().ledgers[PVA::alloc(*t).ledger].live_bytes; }
	void refresh_ledgers() {
		for (auto& kv : objs) { CTable* t = kv.second; if (t && PVA::all_null(*t) && PVA::aux_null(*t) && PVA::alloc(*t).ledger == 0) PVA::alloc(*t) = CountingAlloc<void>(next_ledger++); }
	}
	void mark(const std::string& s) { strncpy(g_marker, s.c_str(), 500); }
	struct Ctx { std::string op; int o; long armed; std::string pre; long errs0; std::string extra; };
	Ctx begin(const std::string& op, int o, long armed) {
		Ctx c; c.op = op; c.o = o; c.armed = armed; c.pre = objs.count(o) && objs[o] ? meta(*objs[o]) : EMPTY_META; c.errs0 = errs_total();
		mark(op + " o=" + std::to_string(o) + " armed=" + std::to_string(armed) + " pre.ndim=" + (c.pre.substr(8, 2)));
		if (armed >= 0) AllocRegistry::get().arm(armed);
		return c;
	}
	void end(Ctx& c, bool ok, const std::string& more = "") {
		bool fired = c.armed >= 0 && AllocRegistry::get().fail_at < 0; AllocRegistry::get().disarm();
		CTable* t = objs.count(c.o) ? objs[c.o] : nullptr;
		JW w; w.s("op", c.op).i("o", c.o).b("ok", ok).i("armed", fired ? c.armed : -1).raw("pre", c.pre).raw("post", t ? meta(*t) : EMPTY_META)
		     .i("live", t ? live(t) : 0).i("errs", errs_total() - c.errs0).s("tag", tag);
		std::string r = w.str(); r.pop_back(); if (!more.empty()) r += "," + more; r += "}";
		fputs(r.c_str(), out); fputc('\n', out); fflush(out);
		refresh_ledgers();
	}
	template <class F> bool guarded(F f) { try { f(); return true; } catch (std::exception&) { return false; } catch (...) { return false; } }

	void step(const JV& op) {
		const std::string& name = op["op"].str(); int o = (int)op["o"].integer(); long armed = op.has("armed") ? op["armed"].integer() : -1;
		if (name == "construct") { if (objs.count(o) && objs[o]) return; objs[o] = new CTable(CountingAlloc<void>(next_ledger++)); return; }
		if (name == "constructfrom") {
			if (objs.count(o) && objs[o]) return;
			const FileEnt& f = g_files[(int)op["file"].integer()]; int led = next_ledger++;
			Ctx c = begin("read", o, armed); CTable* t = nullptr;
			bool ok = guarded([&]() { t = new CTable(f.path, CountingAlloc<void>(led)); });
			bool fired = armed >= 0 && AllocRegistry::get().fail_at < 0; AllocRegistry::get().disarm();
			if (ok) objs[o] = t;
			JW w; w.s("op", "read").i("o", o).b("ok", ok).i("armed", fired ? armed : -1).raw("pre", EMPTY_META).raw("post", ok ? meta(*t) : EMPTY_META)
			     .i("live", AllocRegistry::get().ledgers[led].live_bytes).i("errs", errs_total() - c.errs0).s("tag", tag + " constructor file " + std::to_string(op["file"].integer()))
			     .s("kind", f.valid ? "valid" : "invalid").raw("want", f.want);
			w.emit(out); fflush(out); return;
		}
		if (name == "stack") {   // the stacking constructor: o from the tables s1, s2 (, s1)
			if (objs.count(o) && objs[o]) return;
			int s1 = (int)op["s1"].integer(), s2 = (int)op["s2"].integer();
			if (!objs.count(s1) || !objs[s1] || !objs.count(s2) || !objs[s2]) return;
			int so = (int)op["so"].integer(); int led = next_ledger++;
			std::vector<CTable*> src{objs[s1], objs[s2]}; if (op["three"].b) src.push_back(objs[s1]);
			std::vector<double> coords; for (size_t i = 0; i < src.size(); i++) coords.push_back(1.5 * i + 0.25 * i * i);
			bool good = true;
			for (auto p : src) {
				good = good && p->get_ndim() != 0 && p->get_ndim() == src[0]->get_ndim();
				for (uint32_t d = 0; good && d < p->get_ndim(); d++) good = p->get_order(d) == src[0]->get_order(d) && p->get_nknots(d) == src[0]->get_nknots(d);
			}
			std::string srcpre = meta(*objs[s1]); long stray0 = AllocRegistry::get().ledgers[0].live_bytes;
			Ctx c = begin("stack", o, armed); CTable* t = nullptr;
			bool ok = guarded([&]() { t = new CTable(src, coords, so, CountingAlloc<void>(led)); });
			bool fired = armed >= 0 && AllocRegistry::get().fail_at < 0; AllocRegistry::get().disarm();
			if (ok) objs[o] = t;
			JW w; w.s("op", "stack").i("o", o).b("ok", ok).i("armed", fired ? armed : -1).raw("pre", EMPTY_META).raw("post", ok ? meta(*t) : EMPTY_META)
			     .i("live", AllocRegistry::get().ledgers[led].live_bytes).i("errs", errs_total() - c.errs0).s("tag", tag).s("kind", good ? "good" : "bad")
			     .raw("src_pre", srcpre).raw("src_post", meta(*objs[s1])).i("nsrc", (long)src.size()).i("so", so).i("stray", AllocRegistry::get().ledgers[0].live_bytes - stray0);
			w.emit(out); fflush(out); return;
		}
		if (!objs.count(o) || !objs[o]) return;
		CTable* t = objs[o];
		if (name == "read" || name == "readmem") {
			const FileEnt& f = g_files[(int)op["file"].integer()];
			if (name == "readmem" && f.bytes.empty()) return;
			Ctx c = begin(name, o, armed); std::vector<char> buf = f.bytes;
			mark(name + " file=" + std::to_string(op["file"].integer()) + " o=" + std::to_string(o) + " armed=" + std::to_string(armed));
			bool ok = guarded([&]() { if (name == "read") t->read_fits(f.path); else t->read_fits_mem(buf.data(), buf.size()); });
			end(c, ok, std::string("\"kind\":\"") + (f.valid ? "valid" : "invalid") + "\",\"want\":" + f.want + ",\"file\":" + std::to_string(op["file"].integer()));
		} else if (name == "fit") {
			bool good = op["good"].b; Ctx c = begin("fit", o, armed);
			bool ok = guarded([&]() {
				int variant = (int)rng.below(2);
				size_t n = 12; photospline::ndsparse data(n, 1); std::vector<double> w(good ? n : n - 1, 1.0);
				for (unsigned i = 0; i < n; i++) { unsigned idx[1] = {i}; data.insertEntry(std::sin(0.4 * i), idx); }
				std::vector<std::vector<double>> coords(1), knots(1); for (unsigned i = 0; i < n; i++) coords[0].push_back(i);
				for (int k = -2; k <= 13; k++) knots[0].push_back(k);
				if (!good && variant) { w.assign(n, 1.0); std::swap(knots[0][3], knots[0][7]); }
				std::vector<uint32_t> ord{2}, pen{2}; std::vector<double> sm{1e-3};
				t->fit(data, w, coords, ord, knots, sm, pen, CTable::no_monodim, false);
			});
			end(c, ok, std::string("\"kind\":\"") + (good ? "good" : "bad") + "\"");
		} else if (name == "writekey") {
			static const char* K[] = {"", "KEYA", "ALONGERKEYNAME", "lowercase"}; int kk = (int)op["key"].integer();
			Ctx c = begin("writekey", o, armed);
			bool ok = guarded([&]() { if (kk == 2) t->write_key(K[kk], "some text"); else t->write_key(K[kk], (int)rng.below(100000)); });
			end(c, ok);
		} else if (name == "removekey") {
#ifndef NO_REMOVE_KEY
			static const char* K[] = {"", "KEYA", "ALONGERKEYNAME", "NOTE"};
			Ctx c = begin("removekey", o, -1); bool ok = guarded([&]() { t->remove_key(K[(int)op["key"].integer()]); }); end(c, ok);
#endif
		} else if (name == "convolve") {
			uint32_t dim = t->get_ndim() ? (uint32_t)rng.below(t->get_ndim()) : 0; double kk[3] = {-0.5, 0.25, 0.75};
			Ctx c = begin("convolve", o, armed); bool ok = guarded([&]() { t->convolve(dim, kk, 3); });
			end(c, ok, "\"dim\":" + std::to_string(dim + 1) + ",\"nk\":3");
		} else if (name == "permute") {
			// valid permutations alternate between the reversal (its own inverse) and a rotation (for three and more dimensions
			// not its own inverse: a mix-up of a permutation with its inverse pairs arrays of different dimensions)
			static long permcount = 0; const bool rot = (permcount++ % 2) == 1;
			bool good = op["good"].b; std::vector<size_t> p(t->get_ndim()); for (size_t i = 0; i < p.size(); i++) p[i] = rot ? (i + 1) % p.size() : p.size() - 1 - i;
			if (!good && !p.empty()) p[0] = p.size() + 3;
			if (p.empty()) good = true;   // the empty permutation of an empty table is valid
			Ctx c = begin("permute", o, -1); bool ok = guarded([&]() { t->permuteDimensions(p); });
			end(c, ok, std::string("\"kind\":\"") + (good ? "good" : "bad") + "\"");
		} else if (name == "write" || name == "writemem") {
			Ctx c = begin(name, o, armed);
			bool ok = guarded([&]() { if (name == "write") t->write_fits(g_dir + "/out_" + std::to_string(getpid()) + ".fits"); else { auto b = t->write_fits_mem(); free(b.first); } });
			end(c, ok);
		} else if (name == "compare") {
			int o2 = (int)op["o2"].integer(); if (!objs.count(o2) || !objs[o2]) return;
			Ctx c = begin("compare", o, -1); volatile bool eq = false; bool ok = guarded([&]() { eq = (*t == *objs[o2]); eq = eq ^ (*t != *objs[o2]); }); end(c, ok);
		} else if (name == "moveassign") {
			int s = (int)op["src"].integer(); if (!objs.count(s) || !objs[s] || s == o) return;
			std::string srcpre = meta(*objs[s]); Ctx c = begin("moveassign", o, -1);
			bool ok = guarded([&]() { *t = std::move(*objs[s]); });
			end(c, ok, "\"src_pre\":" + srcpre + ",\"src_post\":" + meta(*objs[s]));
		} else if (name == "destroy") {
			int led = PVA::alloc(*t).ledger; Ctx c = begin("destroy", o, -1);
			delete t; objs[o] = nullptr;
			JW w; w.s("op", "destroy").i("o", o).b("ok", true).i("armed", -1).raw("pre", c.pre).raw("post", EMPTY_META).i("live", led ? AllocRegistry::get().ledgers[led].live_bytes : 0)
			     .i("errs", errs_total() - c.errs0).s("tag", tag); w.emit(out); fflush(out);
		}
	}
	void moveconstruct(int o, int s) {
		if ((objs.count(o) && objs[o]) || !objs.count(s) || !objs[s]) return;
		std::string srcpre = meta(*objs[s]); Ctx c = begin("moveconstruct", o, -1);
		objs[o] = new CTable(std::move(*objs[s]));
		end(c, true, "\"src_pre\":" + srcpre + ",\"src_post\":" + meta(*objs[s]));
	}
	void finish() { for (auto& kv : objs) if (kv.second) { JV d; d.t = JV::OBJ; JV a; a.t = JV::STR; a.s = "destroy"; JV b; b.t = JV::NUM; b.d = kv.first; b.i = kv.first; b.isint = true; d.o.push_back({"op", a}); d.o.push_back({"o", b}); step(d); } }
};

int main(int argc, char** argv) {
	if (argc < 5 || std::string(argv[1]) != "replay") return 2;
	char tmpl[] = "/dev/shm/verif_life_XXXXXX"; g_dir = mkdtemp(tmpl);
	g_marker = (char*)mmap(nullptr, 4096, PROT_READ | PROT_WRITE, MAP_SHARED | MAP_ANONYMOUS, -1, 0);
	make_files();
	std::ifstream f(argv[2]); std::string line; long nh = 0; uint64_t seed = strtoull(argv[4], 0, 10);
	{ FILE* o = fopen(argv[3], "w"); fclose(o); }
	while (std::getline(f, line)) {
		if (line.empty()) continue;
		g_marker[0] = 0; std::string detail;
		std::string v = in_child([&]() -> std::string {
			FILE* out = fopen(argv[3], "a"); JV h = jparse(line);
			Runner r(out, seed + nh); r.tag = "history " + std::to_string(nh);
			for (auto& op : h.a) { if (op["op"].str() == "moveconstruct") r.moveconstruct((int)op["o"].integer(), (int)op["src"].integer()); else r.step(op); }
			r.finish(); fclose(out);
			return __lsan_do_recoverable_leak_check() ? "LEAK" : "done";
		}, 120, &detail);
		if (v == "ok" && detail.find("LEAK") == 0) v = "leak";
		if (v != "ok") {
			FILE* out = fopen(argv[3], "a");
			JW w; w.s("op", "crash").s("obs", v).s("during", g_marker).s("tag", "history " + std::to_string(nh)).s("detail", detail.substr(0, 1500)).i("armed", -1); w.emit(out); fclose(out);
		}
		nh++;
	}
	std::string cmd = "rm -rf " + g_dir; if (system(cmd.c_str())) {}
	printf("{\"histories\":%ld}\n", nh);
	return 0;
}
