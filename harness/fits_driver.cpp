// C06 / C07 driver.
//   fits_driver layout  <count> <seed> <out.ndjson>                 write/read/round-trip events for Trace_Fits
//   fits_driver damaged <cases.ndjson> <seed> <out.ndjson>          materialise damaged files, read them in forked children
//   fits_driver shipped <dir> <out.ndjson>                          projection digests of the shipped reference files
#include "evalapi.h"
#include "minifits.h"
#include <fstream>
#include <sys/mman.h>

static std::string hex64(double d) { uint64_t u; memcpy(&u, &d, 8); return mf::hex(u, 8); }
static std::string hex32(float f) { uint32_t u; memcpy(&u, &f, 4); return mf::hex(u, 4); }
static uint64_t bits(double d) { uint64_t u; memcpy(&u, &d, 8); return u; }
static uint64_t bitsf(float f) { uint32_t u; memcpy(&u, &f, 4); return u; }

// ---------------------------------------------------------------- projection of a real table (hex words)
static std::string proj(const Table& t) {
	std::ostringstream o; uint32_t n = t.get_ndim();
	o << "{\"ndim\":" << n << ",\"order\":["; for (uint32_t d = 0; d < n; d++) o << (d ? "," : "") << t.get_order(d);
	o << "],\"naxes\":["; for (uint32_t d = 0; d < n; d++) o << (d ? "," : "") << t.get_ncoeffs(d);
	o << "],\"knots\":["; for (uint32_t d = 0; d < n; d++) { o << (d ? "," : "") << "["; for (uint64_t j = 0; j < t.get_nknots(d); j++) o << (j ? "," : "") << "\"" << hex64(t.get_knot(d, j)) << "\""; o << "]"; }
	o << "],\"coef\":["; uint64_t nc = t.get_ncoeffs(); for (uint64_t i = 0; i < nc; i++) o << (i ? "," : "") << "\"" << hex32(t.get_coefficients()[i]) << "\"";
	o << "],\"extents\":["; if (PVA::has_extents(t)) for (uint32_t d = 0; d < n; d++) o << (d ? "," : "") << "[\"" << hex64(t.lower_extent(d)) << "\",\"" << hex64(t.upper_extent(d)) << "\"]";
	o << "],\"periods\":["; if (PVA::has_periods(t)) for (uint32_t d = 0; d < n; d++) o << (d ? "," : "") << "\"" << hex64(t.get_period(d)) << "\"";
	o << "],\"aux\":["; for (size_t i = 0; i < t.get_naux_values(); i++) { std::string k = t.get_aux_key(i), v = mf::rstrip(PVA::auxval(t, (uint32_t)i)); o << (i ? "," : "") << "[\"" << JW::esc(k) << "\",\"" << JW::esc(v) << "\"]"; }
	o << "]}"; return o.str();
}
// the same table as the independent codec lays it out (independent writer)
static mf::File layout(const TableSpec& s, const std::vector<std::pair<std::string, std::string>>& aux) {
	mf::File f; mf::HDU p; p.name = "PRIMARY"; p.bitpix = -32; auto nax = s.naxes();
	for (int d = (int)s.ndim - 1; d >= 0; d--) p.axes.push_back((long)nax[d]);
	p.cards.push_back({"TYPE", "Spline Coefficient Table", 's'});
	for (uint32_t d = 0; d < s.ndim; d++) p.cards.push_back({"ORDER" + std::to_string(d), std::to_string(s.order[d]), 'i'});
	if (s.periods.size() == s.ndim) for (uint32_t d = 0; d < s.ndim; d++) { char b[40]; snprintf(b, 40, "%.17G", s.periods[d]); std::string v = b; if (v.find_first_of(".E") == std::string::npos) v += "."; p.cards.push_back({"PERIOD" + std::to_string(d), v, 'f'}); }
	for (auto& a : aux) p.cards.push_back({a.first, a.second, 's'});
	for (float c : s.coeffs) p.data.push_back(bitsf(c));
	f.hdus.push_back(p);
	for (uint32_t d = 0; d < s.ndim; d++) { mf::HDU k; k.name = "KNOTS" + std::to_string(d); k.has_extname = true; k.bitpix = -64; k.axes = {(long)s.knots[d].size()}; for (double v : s.knots[d]) k.data.push_back(bits(v)); f.hdus.push_back(k); }
	if (!s.no_extents) {
		mf::HDU e; e.name = "EXTENTS"; e.has_extname = true; e.bitpix = -64; e.axes = {(long)(2 * s.ndim)};
		for (uint32_t d = 0; d < s.ndim; d++) { double lo = s.extents.size() == 2 * s.ndim ? s.extents[2 * d] : s.knots[d][s.order[d]], hi = s.extents.size() == 2 * s.ndim ? s.extents[2 * d + 1] : s.knots[d][s.knots[d].size() - s.order[d] - 1]; e.data.push_back(bits(lo)); e.data.push_back(bits(hi)); }
		f.hdus.push_back(e);
	}
	return f;
}

static float special_coef(Rng& rng) {
	switch (rng.below(12)) {
		case 0: return 0.f; case 1: return -0.f; case 2: return std::numeric_limits<float>::denorm_min(); case 3: return std::numeric_limits<float>::max();
		case 4: return INFINITY; case 5: return -INFINITY; case 6: return std::numeric_limits<float>::quiet_NaN(); case 7: return -std::numeric_limits<float>::min();
		default: return (float)rng.range(-3, 3);
	}
}
static TableSpec random_spec(Rng& rng, int ndim, bool specials) {
	TableSpec s; s.ndim = ndim; double size = 1;
	for (int d = 0; d < ndim; d++) {
		int n = (int)rng.below(6); int extra = (int)rng.below(4) + (d % 2); if (size * (n + 1 + extra) > 4000) { n = (int)rng.below(2); extra = d % 2; }
		s.order.push_back(n); std::vector<double> k; double v = rng.range(-5, 5); for (int j = 0; j < 2 * n + 2 + extra; j++) { k.push_back(v); v += rng.below(5) ? rng.range(0.1, 2) : 0; }
		s.knots.push_back(k); size *= n + 1 + extra;
	}
	s.coeffs.resize(s.ncoeffs()); for (auto& c : s.coeffs) c = specials ? special_coef(rng) : (float)rng.range(-3, 3);
	if (rng.below(2)) for (int d = 0; d < ndim; d++) { s.extents.push_back(rng.range(-9, 0)); s.extents.push_back(rng.range(0, 9)); }
	if (rng.below(2)) for (int d = 0; d < ndim; d++) s.periods.push_back(rng.below(2) ? 0.0 : 0.25 * (double)rng.below(1000));
	return s;
}
static std::vector<std::pair<std::string, std::string>> random_aux(Rng& rng) {
	static const char* K[] = {"KEYA", "GEOTYPE", "ALONGERKEYNAME", "LEVEL", "HIERARCHKEYWITHAVERYLONGNAME01", "Z9"};
	static const char* V[] = {"1", "text value", "", "2.5", "it's", "  leading", "trailing  ", "42", "''", "a'''b", "x='' y='1'", "'"};
	const unsigned NV = sizeof(V) / sizeof(*V);
	std::vector<std::pair<std::string, std::string>> a; int n = (int)rng.below(7);
	for (int i = 0; i < n && i < 6; i++) a.push_back({K[i], V[rng.below(NV)]});
	// names a table may or may not accept (they begin like the structural keywords the reader filters out); whatever the table
	// accepts it holds, and what it holds must survive the round trip
	static const char* R[] = {"TYPE_OF_TABLE", "ORDERING_SCHEME", "PERIODICITY", "NAXIS_LABELS", "EXTENDED_INFORMATION", "COMMENTARY_ON_FIT",
	                          "SIMPLEX_METHOD", "BITPIXEL_DEPTH", "TYPE", "ORDER9", "NAXIS", "PERIOD12", "COMMENT", "EXTEND", "TYPEA", "HISTORY_OF_FIT", "END_OF_TABLE"};
	// one table in ten carries many keys (the primary header then spans several 2880-byte blocks)
	if (rng.below(10) == 0) { int many = 40 + (int)rng.below(80); for (int i = 0; i < many; i++) a.push_back({i % 3 ? "K" + std::to_string(1000 + i) : "LONGERKEYNUMBER" + std::to_string(1000 + i), V[rng.below(NV)]}); }
	int m = (int)rng.below(4);
	for (int i = 0; i < m; i++) a.insert(a.begin() + rng.below(a.size() + 1), {R[rng.below(sizeof(R) / sizeof(*R))], V[rng.below(NV)]});
	return a;
}

static bool eval_same(const Table& a, const Table& b, Rng& rng) {
	uint32_t n = a.get_ndim(); std::vector<double> x(n); std::vector<int> c1(n), c2(n);
	for (int rep = 0; rep < 6; rep++) {
		for (uint32_t d = 0; d < n; d++) { double lo = a.get_knot(d, 0), hi = a.get_knot(d, a.get_nknots(d) - 1); x[d] = lo + (hi - lo) * rng.unit(); }
		bool o1 = a.searchcenters(x.data(), c1.data()), o2 = b.searchcenters(x.data(), c2.data());
		if (o1 != o2) return false; if (!o1) continue; if (c1 != c2) return false;
		double v1 = a.ndsplineeval<double>(x.data(), c1.data(), 0), v2 = b.ndsplineeval<double>(x.data(), c2.data(), 0);
		if (memcmp(&v1, &v2, 8)) return false;
	}
	return true;
}

static int layout_mode(long count, uint64_t seed, const char* outp) {
	Rng rng(seed); FILE* out = fopen(outp, "w"); char tmpl[] = "/dev/shm/verif_fits_XXXXXX"; std::string dir = mkdtemp(tmpl); long nev = 0;
	for (long it = 0; it < count; it++) {
		int ndim = 1 + (int)(it % 9); TableSpec s = random_spec(rng, ndim, it % 3 != 2); auto aux = random_aux(rng);
		// --- (R1) the library writes, the independent codec reads the bytes
		Table t; PVA::build(t, s, PAD_ZERO);
		{
			std::vector<std::pair<std::string, std::string>> held;
			for (auto& a : aux) {
				bool ok = true; try { t.write_key(a.first.c_str(), a.second.c_str()); } catch (std::exception&) { ok = false; }
				if (ok) { bool dup = false; for (auto& h : held) if (h.first == a.first) { h.second = a.second; dup = true; } if (!dup) held.push_back(a); }
			}
			aux = held;
		}
		std::vector<unsigned char> bytes; bool disk = it % 2;
		if (disk) { std::string p = dir + "/w.fits"; t.write_fits(p); std::ifstream f(p, std::ios::binary); bytes.assign((std::istreambuf_iterator<char>(f)), std::istreambuf_iterator<char>()); }
		else { auto b = t.write_fits_mem(); bytes.assign((unsigned char*)b.first, (unsigned char*)b.first + b.second); free(b.first); }
		try { mf::File pf = mf::parse(bytes.data(), bytes.size()); JW w; w.s("op", "write").s("how", disk ? "disk" : "mem").raw("T", proj(t)).raw("F", mf::to_json(pf)); w.emit(out); nev++; }
		catch (std::exception& e) { JW w; w.s("op", "write").s("how", disk ? "disk" : "mem").raw("T", proj(t)).raw("F", "[]").s("parse_error", e.what()); w.emit(out); nev++; }
		// --- (R3) the library reads its own output back
		{
			Table r; bool ok = true; std::vector<unsigned char> copy = bytes;
			try { r.read_fits_mem(copy.data(), copy.size()); } catch (std::exception&) { ok = false; }
			bool bitseq = ok && r.get_ndim() == t.get_ndim() && r.get_ncoeffs() == t.get_ncoeffs() && !memcmp(r.get_coefficients(), t.get_coefficients(), 4 * t.get_ncoeffs());
			for (uint32_t d = 0; bitseq && d < t.get_ndim(); d++) bitseq = r.get_order(d) == t.get_order(d) && r.get_nknots(d) == t.get_nknots(d) && !memcmp(r.get_knots(d), t.get_knots(d), 8 * t.get_nknots(d));
			bool hasnan = false; for (uint64_t i = 0; i < t.get_ncoeffs(); i++) hasnan = hasnan || std::isnan(t.get_coefficients()[i]);
			bool eq = bitseq && (hasnan || (r == t && !(r != t)));   // NaN coefficients compare unequal by IEEE rules: then the bits decide
			bool strides = ok; for (uint32_t d = 0; ok && d < t.get_ndim(); d++) strides = strides && r.get_stride(d) == t.get_stride(d) && r.get_ncoeffs(d) == t.get_ncoeffs(d);
			bool ext = ok; for (uint32_t d = 0; ok && d < t.get_ndim(); d++) ext = ext && hex64(r.lower_extent(d)) == hex64(t.lower_extent(d)) && hex64(r.upper_extent(d)) == hex64(t.upper_extent(d));
			bool auxok = ok && r.get_naux_values() == t.get_naux_values();
			for (size_t i = 0; auxok && i < t.get_naux_values(); i++) auxok = !strcmp(r.get_aux_key(i), t.get_aux_key(i)) && mf::rstrip(PVA::auxval(r, (uint32_t)i)) == mf::rstrip(PVA::auxval(t, (uint32_t)i));
			JW w; w.s("op", "roundtrip").b("equal", eq).b("evalsame", ok && eval_same(t, r, rng)).b("strides", strides).b("extents", ext).b("aux", auxok).i("ndim", ndim); w.emit(out); nev++;
		}
		// --- (R2) the independent codec writes (documented layout and legacy variants), the library reads
		for (int variant = 0; variant < 5; variant++) {
			TableSpec s2 = s; auto aux2 = aux; for (auto& a : aux2) a.second = mf::rstrip(a.second);
			if (variant == 1) s2.no_extents = true;
			if (variant == 2) s2.periods.clear();
			mf::File f = layout(s2, aux2);
			if (variant == 3 && f.hdus.size() > 2) std::reverse(f.hdus.begin() + 1, f.hdus.end());
			if (variant == 4) {   // single ORDER key (only meaningful when all orders agree: force that)
				for (auto& o : s2.order) o = s2.order[0];
				for (uint32_t d = 0; d < s2.ndim; d++) { std::vector<double> k; double v = -1; for (uint32_t j = 0; j < 2 * s2.order[0] + 2 + d % 2; j++) { k.push_back(v); v += 1; } s2.knots[d] = k; }
				s2.coeffs.assign(s2.ncoeffs(), 1.5f); s2.extents.clear(); f = layout(s2, aux2);
				auto& c = f.hdus[0].cards; c.erase(std::remove_if(c.begin(), c.end(), [](const mf::Card& x) { return x.key.compare(0, 5, "ORDER") == 0; }), c.end());
				c.insert(c.begin() + 1, mf::Card{"ORDER", std::to_string(s2.order[0]), 'i'});
			}
			std::vector<unsigned char> b = mf::build(f); mf::File back = mf::parse(b.data(), b.size());
			Table r; bool ok = true; std::string err;
			try { if (variant % 2) { std::string p = dir + "/r.fits"; std::ofstream o(p, std::ios::binary); o.write((char*)b.data(), b.size()); o.close(); r.read_fits(p); } else r.read_fits_mem(b.data(), b.size()); }
			catch (std::exception& e) { ok = false; err = e.what(); }
			JW w; w.s("op", "read").i("variant", variant).b("ok", ok).raw("F", mf::to_json(back)).raw("T", ok ? proj(r) : "{\"ndim\":0,\"order\":[],\"naxes\":[],\"knots\":[],\"coef\":[],\"extents\":[],\"periods\":[],\"aux\":[]}").s("err", err); w.emit(out); nev++;
		}
	}
	fclose(out); std::string cmd = "rm -rf " + dir; if (system(cmd.c_str())) {}
	printf("{\"events\":%ld}\n", nev); return 0;
}

// ---------------------------------------------------------------- C07: damaged files
static TableSpec base_spec(int n) {
	TableSpec s; s.ndim = n; const int ord[3] = {2, 1, 3}; const int extra[3] = {2, 1, 0};
	for (int d = 0; d < n; d++) { int o = n > 3 ? d % 2 : ord[d], e = n > 3 ? 0 : extra[d]; s.order.push_back(o); std::vector<double> k; for (int j = 0; j < 2 * o + 2 + e; j++) k.push_back(j - 2 + d); s.knots.push_back(k); }   // n > 3: small orders 0,1,0,1,.. so that 7..9-D tables stay small
	s.coeffs.resize(s.ncoeffs()); for (size_t i = 0; i < s.coeffs.size(); i++) s.coeffs[i] = (float)(1 + (i % 7) * 0.25);
	return s;
}
static void apply(const JV& m, mf::File& f, int n, std::vector<unsigned char>* bytes, Rng& rng) {
	const std::string& k = m["m"].str();
	auto hdu = [&](long i) -> mf::HDU* { return i >= 0 && i < (long)f.hdus.size() ? &f.hdus[i] : nullptr; };
	if (bytes) {
		if (k == "truncate") { long b = m["blocks"].integer(), p = m["partial"].integer(); long cut = b * 2880 + p; if (cut < (long)bytes->size()) bytes->resize(bytes->size() - cut); else bytes->clear(); }
		else if (k == "flip") {
			long w = m["which"].integer(); size_t pos;
			if (m["region"].str() == "header") pos = (size_t)((w * 977 + rng.below(2880)) % std::min<size_t>(bytes->size(), 2880 * 2));
			else pos = bytes->size() > 2880 ? 2880 + (size_t)((w * 1319 + rng.below(5000)) % (bytes->size() - 2880)) : 0;
			if (pos < bytes->size()) (*bytes)[pos] ^= (unsigned char)(1u << (w % 8));
		}
		return;
	}
	if (k == "setcard" || k == "addcard") {
		std::string key = m["key"].str(), val = m["val"].str(); char kind = val[0] == '\'' ? 's' : 'i'; if (kind == 's') val = val.substr(1, val.size() - 2);
		bool done = false; for (auto& c : f.hdus[0].cards) if (c.key == key) { c.val = val; c.kind = kind; done = true; }
		if (!done) { auto& cs = f.hdus[0].cards; cs.insert(cs.begin() + std::min<size_t>(1, cs.size()), mf::Card{key, val, kind}); }
	} else if (k == "rawcard") {
		// header cards that carry no key/value pair, or a key without a value, where an auxiliary key stood
		const std::string& c = m["cls"].str(); auto& cs = f.hdus[0].cards; std::string raw;
		if (c == "history") raw = "HISTORY written by the verification harness";
		else if (c == "comment") raw = "COMMENT a commentary card between the keys";
		else if (c == "blank-keyword") raw = "        text under a blank keyword";
		else if (c == "blank-value") raw = "KEYA    =";
		else if (c == "no-equals") raw = "KEYA      1";
		else raw = "KEYB    = 'unterminated";
		if (c == "blank-value" || c == "no-equals") cs.erase(std::remove_if(cs.begin(), cs.end(), [&](const mf::Card& x) { return x.key == "KEYA"; }), cs.end());
		cs.push_back(mf::Card{"", raw, 'r'});
	} else if (k == "delcard") { auto& c = f.hdus[0].cards; std::string key = m["key"].str(); c.erase(std::remove_if(c.begin(), c.end(), [&](const mf::Card& x) { return x.key == key; }), c.end()); }
	else if (k == "setaxis") { mf::HDU* h = hdu(m["hdu"].integer()); long a = m["axis"].integer(); if (h && a >= 1 && a <= (long)h->axes.size()) { h->axes[a - 1] = m["val"].integer(); size_t nel = 1; for (long x : h->axes) nel *= (size_t)x; if (nel < 4000000) h->data.resize(nel, 0x3ff0000000000000ull >> (h->bitpix == -32 ? 32 : 0)); } }
	else if (k == "setnaxis") { mf::HDU* h = hdu(m["hdu"].integer()); if (h) { h->axes.resize(m["val"].integer(), 2); size_t nel = h->axes.empty() ? 0 : 1; for (long x : h->axes) nel *= (size_t)x; h->data.resize(nel, 0); } }
	else if (k == "setbitpix") { mf::HDU* h = hdu(m["hdu"].integer()); if (h) h->bitpix = (int)m["val"].integer(); }
	else if (k == "rename") { mf::HDU* h = hdu(m["hdu"].integer()); if (h) { h->name = m["name"].str(); h->has_extname = true; } }
	else if (k == "drop") { long i = m["hdu"].integer(); if (i >= 0 && i < (long)f.hdus.size() && f.hdus.size() > 1) f.hdus.erase(f.hdus.begin() + i); }
	else if (k == "swap") { mf::HDU* a = hdu(m["hdu"].integer()); mf::HDU* b = hdu(m["hdu2"].integer()); if (a && b && a != b) std::swap(*a, *b); }
	else if (k == "dup") { mf::HDU* a = hdu(m["hdu"].integer()); if (a) { mf::HDU c = *a; if (c.name == "PRIMARY") { c.name = "COPY"; c.has_extname = true; } f.hdus.push_back(c); } }
	else if (k == "resize") { mf::HDU* h = hdu(m["hdu"].integer()); if (h && !h->axes.empty()) { long v = h->axes[0] + m["delta"].integer(); if (v < 0) v = 0; h->axes[0] = v; size_t nel = 1; for (long x : h->axes) nel *= (size_t)x; h->data.resize(nel, h->bitpix == -32 ? 0x3f800000u : 0x4024000000000000ull); } }
	else if (k == "setknot") {
		long d = m["dim"].integer(), j = m["idx"].integer(); mf::HDU* h = hdu(1 + d); if (!h || h->data.empty()) return; if (j >= (long)h->data.size()) j = (long)h->data.size() - 1;
		const std::string& c = m["cls"].str();
		if (c == "nan") h->data[j] = 0x7ff8000000000000ull; else if (c == "inf") h->data[j] = 0x7ff0000000000000ull; else if (c == "-inf") h->data[j] = 0xfff0000000000000ull;
		else if (c == "flat-support") { TableSpec b = base_spec(n); size_t o = b.order[d], na = b.knots[d].size() - o - 1; for (size_t q = o; q <= na && q < h->data.size(); q++) h->data[q] = h->data[o]; }
		else if (c == "all-equal") { for (auto& v : h->data) v = h->data[0]; }
		else if (c == "descending") { if (j + 1 < (long)h->data.size()) std::swap(h->data[j], h->data[j + 1]); else if (j > 0) std::swap(h->data[j], h->data[j - 1]); }
		else if (j + 1 < (long)h->data.size()) h->data[j + 1] = h->data[j];
	} else if (k == "foreign") {
		const std::string& kind = m["kind"].str();
		if (kind == "zero-dim-primary") { f.hdus[0].axes.clear(); f.hdus[0].data.clear(); }
		else if (kind == "no-spline-keys") { f.hdus[0].cards.clear(); f.hdus.resize(1); }
		else if (kind == "table-extension") { mf::HDU p; p.name = "PRIMARY"; p.bitpix = 8; f.hdus.insert(f.hdus.begin(), p); }
		(void)n;
	}
}
static std::string wjson(const Table& t) {   // knots as integers when integral, else class names
	std::ostringstream o; uint32_t n = t.get_ndim();
	o << "{\"ndim\":" << n << ",\"order\":["; for (uint32_t d = 0; d < n; d++) o << (d ? "," : "") << t.get_order(d);
	o << "],\"naxes\":["; for (uint32_t d = 0; d < n; d++) o << (d ? "," : "") << t.get_ncoeffs(d);
	o << "],\"knots\":["; for (uint32_t d = 0; d < n; d++) { o << (d ? "," : "") << "["; for (uint64_t j = 0; j < t.get_nknots(d); j++) { double v = t.get_knot(d, j); o << (j ? "," : ""); if (std::isnan(v)) o << 2000000001L; else if (std::isinf(v)) o << (v > 0 ? 2000000002L : -2000000002L); else if (std::fabs(v) < 1e6) o << (long)std::floor(v * 1000); else o << (v > 0 ? 2000000003L : -2000000003L); } o << "]"; }
	uint64_t nc = 1; for (uint32_t d = 0; d < n; d++) nc *= t.get_ncoeffs(d);
	o << "],\"coef\":" << nc << "}"; return o.str();
}

static int damaged_mode(const char* cases, uint64_t seed, const char* outp) {
	std::ifstream f(cases); std::string line; FILE* out = fopen(outp, "w"); long nev = 0; Rng rng(seed);
	char tmpl[] = "/dev/shm/verif_dmg_XXXXXX"; std::string dir = mkdtemp(tmpl);
	while (std::getline(f, line)) {
		if (line.empty()) continue; JV c = jparse(line); int n = (int)c["base"].integer();
		mf::File file = layout(base_spec(n), {{"KEYA", "1"}});
		bool empty_file = false, garbage = false;
		for (auto& m : c["muts"].a) { if (m["m"].str() == "foreign" && m["kind"].str() == "empty-file") empty_file = true; if (m["m"].str() == "foreign" && m["kind"].str() == "garbage") garbage = true; apply(m, file, n, nullptr, rng); }
		std::vector<unsigned char> bytes = mf::build(file);
		for (auto& m : c["muts"].a) apply(m, file, n, &bytes, rng);
		if (empty_file) bytes.clear();
		if (garbage) { bytes.assign(2880 * 2, 0); for (auto& b : bytes) b = (unsigned char)rng.below(256); }
		bool blockmultiple = bytes.size() % 2880 == 0 && !bytes.empty();
		std::string path = dir + "/d.fits"; { std::ofstream o(path, std::ios::binary); o.write((char*)bytes.data(), bytes.size()); }
		long caseno = nev;
		for (int how = 0; how < 4; how++) {
			if ((how == 1 || how == 3) && !blockmultiple) continue;
			if (how >= 2 && (caseno / 3) % 3 != 0) continue;                 // the C wrappers share the C++ reader: every third case   // memory readers: only whole-block buffers (see known finding on cfitsio's mem_read)
			std::string detail;
			std::string v = in_child([&]() -> std::string {
				Table* t = nullptr; bool ok = true; ::splinetable ct; ct.data = nullptr; std::vector<unsigned char> copy = bytes;
				alarm(20);
				try {
					if (how == 0) { t = new Table(); t->read_fits(path); }
					else if (how == 1) { t = new Table(); t->read_fits_mem(copy.data(), copy.size()); }
					else if (how == 2) { ok = readsplinefitstable(path.c_str(), &ct) == 0; t = static_cast<Table*>(ct.data); }
					else { splinetable_init(&ct); splinetable_buffer b; b.data = copy.data(); b.size = copy.size(); ok = readsplinefitstable_mem(&b, &ct) == 0; t = static_cast<Table*>(ct.data); }
				} catch (std::exception&) { ok = false; }
				std::ostringstream r; r << "{\"ok\":" << (ok ? "true" : "false");
				if (!ok) {
					bool empty = !t || (PVA::all_null(*t) && PVA::aux_null(*t));
					// reusable: a following valid read succeeds
					bool reusable = true;
					if (t && how < 2) { try { std::vector<unsigned char> good = mf::build(layout(base_spec(1), {})); t->read_fits_mem(good.data(), good.size()); reusable = t->get_ndim() == 1; } catch (std::exception&) { reusable = false; } }
					r << ",\"empty\":" << (empty && reusable ? "true" : "false") << ",\"W\":{\"ndim\":0,\"order\":[],\"naxes\":[],\"knots\":[],\"coef\":0},\"battery\":\"ok\"}";
					if (how < 2) delete t; else splinetable_free(&ct);
					return r.str();
				}
				std::string w = wjson(*t);
				// the battery: everything a user may do with a table that a read returned
				volatile double sink = 0; uint32_t nd = t->get_ndim(); std::vector<double> x(nd); std::vector<int> cen(nd); std::vector<double> g(nd + 1);
				for (int rep = 0; rep < 8; rep++) {
					for (uint32_t d = 0; d < nd; d++) { double lo = t->get_knot(d, 0), hi = t->get_knot(d, t->get_nknots(d) - 1); x[d] = rep == 0 ? lo : rep == 1 ? hi : lo + (hi - lo) * (rep - 1) / 6.5; }
					if (t->searchcenters(x.data(), cen.data())) { sink = sink + t->ndsplineeval(x.data(), cen.data(), 0) + t->ndsplineeval(x.data(), cen.data(), 1); try { t->ndsplineeval_gradient(x.data(), cen.data(), g.data()); } catch (std::runtime_error&) {} }   // refused above 7 dimensions
					sink = sink + (*t)(x.data());
				}
				// ... and on every knot (all dimensions on their j-th knot, the last one when a dimension has fewer)
				{ uint64_t maxnk = 0; for (uint32_t d = 0; d < nd; d++) maxnk = std::max<uint64_t>(maxnk, t->get_nknots(d));
				  for (uint64_t jk = 0; jk < maxnk && jk < 64; jk++) {
					for (uint32_t d = 0; d < nd; d++) x[d] = t->get_knot(d, std::min<uint64_t>(jk, t->get_nknots(d) - 1));
					if (t->searchcenters(x.data(), cen.data())) { sink = sink + t->ndsplineeval(x.data(), cen.data(), 0) + t->ndsplineeval(x.data(), cen.data(), 1); try { t->ndsplineeval_gradient(x.data(), cen.data(), g.data()); } catch (std::runtime_error&) {} }
					sink = sink + (*t)(x.data());
				  } }
				{ Table o2; std::vector<unsigned char> good = mf::build(layout(base_spec(1), {})); o2.read_fits_mem(good.data(), good.size()); sink = sink + (*t == o2) + (*t == *t); }
				// ... the auxiliary keys it lists: every entry can be looked up, an absent key is reported absent, a key can be added
				for (size_t i = 0; i < t->get_naux_values(); i++) { const char* key = t->get_aux_key(i); const char* v = t->get_aux_value(key); sink = sink + (double)strlen(key) + (v ? (double)strlen(v) : 0.0); int iv = 0; t->read_key(key, iv); }
				sink = sink + (t->get_aux_value("NOSUCHKEY") ? 1.0 : 0.0);
				try { t->write_key("ADDEDKEY", "added"); } catch (std::exception&) {}
				{ auto b = t->write_fits_mem(); free(b.first); }
				if (how < 2) delete t; else splinetable_free(&ct);
				r << ",\"empty\":false,\"W\":" << w << ",\"battery\":\"ok\"}"; return r.str();
			}, 60, &detail);
			std::string body;
			if (v == "ok" && !detail.empty() && detail[0] == '{') body = detail.substr(1, detail.find("}\n[stderr]") == std::string::npos ? detail.size() - 2 : detail.find("}\n[stderr]") - 1);
			else body = "\"ok\":true,\"empty\":false,\"W\":{\"ndim\":1,\"order\":[0],\"naxes\":[1],\"knots\":[[0,1]],\"coef\":1},\"battery\":\"" + JW::esc(v) + "\"";
			fprintf(out, "{\"op\":\"damaged\",\"how\":%d,\"case\":%s,%s,\"detail\":\"%s\"}\n", how, line.c_str(), body.c_str(), v == "ok" ? "" : JW::esc(detail.substr(0, 900)).c_str()); nev++;
		}
	}
	fclose(out); std::string cmd = "rm -rf " + dir; if (system(cmd.c_str())) {}
	printf("{\"events\":%ld}\n", nev); return 0;
}

static int shipped_mode(const char* dir, const char* outp) {
	FILE* out = fopen(outp, "w"); const char* names[] = {"test_spline_1d.fits", "test_spline_2d.fits", "test_spline_3d.fits", "test_spline_4d.fits", "test_spline_4d_nco.fits", "test_spline_5d.fits", nullptr};
	for (int i = 0; names[i]; i++) {
		std::string p = std::string(dir) + "/" + names[i]; Table t; bool ok = true; try { t.read_fits(p); } catch (std::exception&) { ok = false; }
		uint64_t h = 1469598103934665603ull; std::string pj = ok ? proj(t) : "unreadable"; for (unsigned char ch : pj) { h ^= ch; h *= 1099511628211ull; }
		JW w; w.s("op", "shipped").s("file", names[i]).b("ok", ok).s("digest", mf::hex(h, 8)).i("ndim", ok ? t.get_ndim() : 0); w.emit(out);
	}
	fclose(out); return 0;
}

int main(int argc, char** argv) {
	if (argc < 4) return 2; std::string mode = argv[1];
	if (mode == "layout" && argc >= 5) return layout_mode(atol(argv[2]), strtoull(argv[3], 0, 10), argv[4]);
	if (mode == "damaged" && argc >= 5) return damaged_mode(argv[2], strtoull(argv[3], 0, 10), argv[4]);
	if (mode == "shipped") return shipped_mode(argv[2], argv[3]);
	return 2;
}
