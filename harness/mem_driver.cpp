// C19: measures the peak number of bytes requested from the table's allocator while constructing a table from a
// file and convolving it, and compares with estimateMemory; logs the allocation sequence for Trace_Memory.
//   mem_driver <nfiles> <seed> <out.ndjson>
#include "counting_alloc.h"
#include "evalapi.h"
#include <fstream>
typedef photospline::splinetable<CountingAlloc<void>> CTable;

int main(int argc, char** argv) {
	if (argc < 4) return 2;
	long nfiles = atol(argv[1]); Rng rng(strtoull(argv[2], 0, 10)); FILE* out = fopen(argv[3], "w");
	char tmpl[] = "/dev/shm/verif_mem_XXXXXX"; std::string dir = mkdtemp(tmpl); long nev = 0; int ledger = 1;
	for (long fi = 0; fi < nfiles; fi++) {
		TableSpec s; s.ndim = 1 + (uint32_t)(fi % 6); double size = 1;
		for (uint32_t d = 0; d < s.ndim; d++) {
			int n = (int)rng.below(6); int extra = (int)rng.below(s.ndim >= 5 ? 2 : 5);
			// every seventh file has one long axis (300..900 knots): a block of that size which is held a moment too long, or
			// never returned, is larger than the rounding slack of the estimate
			if (fi % 7 == 6 && d == (fi / 7) % s.ndim) extra = 300 + (int)rng.below(600);
			if (size * (n + 1 + extra) > 3e4) { n = 0; extra = 0; }
			s.order.push_back(n); std::vector<double> k; double v = -2; for (int j = 0; j < 2 * n + 2 + extra; j++) { k.push_back(v); v += 0.5 + rng.unit(); }
			s.knots.push_back(k); size *= n + 1 + extra;
		}
		s.coeffs.assign(s.ncoeffs(), 0.25f);
		Table src; PVA::build(src, s, PAD_ZERO);
		// fi % 5 == 3 / 4: many keys of one kind whose values fill their cards, so that each key's real cost is as close to what
		// the estimate allows per key as it can get (a key the estimate forgets cannot hide in the slack of the others)
		int kind = fi % 5 == 3 ? 1 : fi % 5 == 4 ? 0 : -1;
		int naux = fi % 5 == 0 ? 50 : kind >= 0 ? 60 + (int)rng.below(200) : (int)rng.below(8);
		for (int a = 0; a < naux; a++) {
			std::string key, val;
			if (kind == 1) { key = "LONGKEY" + std::to_string(1000 + a); val = std::string(67 - key.size(), 'h'); }
			else if (kind == 0) { key = "S" + std::to_string(1000 + a); val = std::string(68, 's'); }
			else switch (a % 4) {
				case 0: key = "K" + std::to_string(a); val = std::string(1 + rng.below(68), 'v'); break;
				case 1: key = "AVERYLONGHIERARCHKEYWORDNUMBER" + std::to_string(100 + a); val = std::string(rng.below(30), 'w'); break;
				case 2: key = "KEY" + std::to_string(10000 + a); val = ""; break;
				default: key = "HIERARCHKEYWITHSIXTYCHARACTERSPADDEDTOTHEENDXXXXXXXXXXXXXXX" + std::to_string(10 + a); val = std::to_string(a); break;
			}
			try { src.write_key(key.c_str(), val.c_str()); } catch (std::exception&) {}
		}
		std::string path = dir + "/f" + std::to_string(fi) + ".fits";
		src.write_fits(path);
		for (int rep = 0; rep < 4; rep++) {
			uint32_t cd = (uint32_t)rng.below(s.ndim); if (fi % 7 == 6 && rep % 2) cd = (uint32_t)((fi / 7) % s.ndim); uint32_t nk = rep == 0 ? 1 : 2 + (uint32_t)rng.below(7);
			int led = ledger++; AllocRegistry& R = AllocRegistry::get(); R.record_sizes = true;
			size_t est = CTable::estimateMemory(path, nk, cd);
			std::string meta;
			{
				CTable t(path, CountingAlloc<void>(led));
				std::ostringstream o; uint32_t n = t.get_ndim();
				o << "{\"ndim\":" << n << ",\"order\":["; for (uint32_t d = 0; d < n; d++) o << (d ? "," : "") << t.get_order(d);
				o << "],\"nknots\":["; for (uint32_t d = 0; d < n; d++) o << (d ? "," : "") << t.get_nknots(d);
				o << "],\"naxes\":["; for (uint32_t d = 0; d < n; d++) o << (d ? "," : "") << t.get_ncoeffs(d);
				o << "],\"aux\":["; for (uint32_t i = 0; i < PVA::naux(t); i++) o << (i ? "," : "") << "[" << strlen(PVA::auxkey(t, i)) << "," << strlen(PVA::auxval(t, i)) << "]";
				o << "]}"; meta = o.str();
				if (nk >= 2) { std::vector<double> kern; double v = -0.3; for (uint32_t j = 0; j < nk; j++) { kern.push_back(v); v += 0.1 + 0.2 * rng.unit(); } t.convolve(cd, kern.data(), nk); }
			}
			AllocLedger& L = R.ledgers[led];
			JW w; w.raw("m", meta).i("cd", cd + 1).i("nk", nk).i("peak", L.peak_bytes).i("estimate", (long)est).i("objsize", (long)sizeof(CTable)).ia("sizes", L.sizes)
			     .i("leaked", L.live_bytes).i("errors", (long)L.errors.size()).i("file", fi);
			w.emit(out); nev++;
		}
		unlink(path.c_str());
	}
	fclose(out); rmdir(dir.c_str());
	printf("{\"events\":%ld}\n", nev);
	return 0;
}
