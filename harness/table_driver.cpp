// C15: permuteDimensions / splinetable_permute on real tables; logs pre/post projections for Trace_Table and
// checks numerically that the function is unchanged at permuted points.
//   table_driver permute <maxdim> <seed> <nsample6> <out.ndjson>
#include "evalapi.h"
#include <fstream>
#include <iostream>
#include <algorithm>
#include <numeric>

static std::string proj(const Table& t) {
	std::ostringstream o; uint32_t n = t.get_ndim();
	o << "{\"ndim\":" << n << ",\"order\":[";
	for (uint32_t d = 0; d < n; d++) o << (d ? "," : "") << t.get_order(d);
	o << "],\"knots\":[";
	for (uint32_t d = 0; d < n; d++) { o << (d ? "," : "") << "["; for (uint64_t j = 0; j < t.get_nknots(d); j++) o << (j ? "," : "") << (long)t.get_knot(d, j); o << "]"; }
	o << "],\"naxes\":[";
	for (uint32_t d = 0; d < n; d++) o << (d ? "," : "") << t.get_ncoeffs(d);
	o << "],\"strides\":[";
	for (uint32_t d = 0; d < n; d++) o << (d ? "," : "") << t.get_stride(d);
	o << "],\"extents\":[";
	for (uint32_t d = 0; d < n; d++) o << (d ? "," : "") << "[" << (long)t.lower_extent(d) << "," << (long)t.upper_extent(d) << "]";
	o << "],\"periods\":[";
	for (uint32_t d = 0; d < n; d++) o << (d ? "," : "") << (PVA::has_periods(t) ? (long)t.get_period(d) : -1);
	o << "],\"coef\":[";
	uint64_t nc = t.get_ncoeffs();
	for (uint64_t i = 0; i < nc; i++) o << (i ? "," : "") << (long)t.get_coefficients()[i];
	o << "]}"; return o.str();
}

static TableSpec shape(int n, Rng& rng, bool small) {
	TableSpec s; s.ndim = n;
	std::vector<int> lens;
	for (int d = 0; d < n; d++) {
		int ord = d % 3;                    // orders 0,1,2,0,1,2
		int nk = (d + 2) + ord + 1;         // coefficient counts 2,3,4,5,6,7: pairwise different
		(void)small;
		s.order.push_back(ord);
		std::vector<double> k; double v = -3 + d;
		for (int j = 0; j < nk; j++) { k.push_back(v); v += 1 + (int)rng.below(3); }
		s.knots.push_back(k);
		s.extents.push_back(100 + 10 * d); s.extents.push_back(200 + 10 * d + 1);
		s.periods.push_back(1000 + d);
	}
	s.coeffs.resize(s.ncoeffs());
	for (size_t i = 0; i < s.coeffs.size(); i++) s.coeffs[i] = (float)i;     // every coefficient identifies its original place
	return s;
}

static long nnum = 0, nnummis = 0;
static void numeric_same(const Table& a, const Table& b, const std::vector<size_t>& perm, Rng& rng, FILE* out) {
	// b = a permuted by perm: b(x o perm) must equal a(x) up to rounding
	uint32_t n = a.get_ndim();
	for (int rep = 0; rep < 6; rep++) {
		std::vector<double> x(n), y(n);
		for (uint32_t d = 0; d < n; d++) {
			double lo = a.get_knot(d, 0), hi = a.get_knot(d, a.get_nknots(d) - 1);
			x[d] = rep == 0 ? a.get_knot(d, a.get_ncoeffs(d)) : lo + (hi - lo) * (0.02 + 0.96 * rng.unit());
		}
		for (uint32_t i = 0; i < n; i++) y[i] = x[perm[i]];
		std::vector<int> ca(n), cb(n);
		if (!a.searchcenters(x.data(), ca.data()) || !b.searchcenters(y.data(), cb.data())) { nnummis++; JW w; w.s("op", "numeric").s("what", "lookup failed after permutation"); w.emit(out); continue; }
		double va = a.ndsplineeval<double>(x.data(), ca.data(), 0), vb = b.ndsplineeval<double>(y.data(), cb.data(), 0);
		double blk = 1; for (uint32_t d = 0; d < n; d++) blk *= a.get_order(d) + 1;
		double tol = (blk + 64) * 2.3e-16 * (double)a.get_ncoeffs() * 4;   // |coef| <= ncoef, basis values <= 1
		nnum++;
		if (!(std::fabs(va - vb) <= tol)) { nnummis++; JW w; w.s("op", "numeric").s("what", "value changed by permutation").d("before", va).d("after", vb).d("tol", tol); w.emit(out); }
	}
}

int main(int argc, char** argv) {
	if (argc < 6 || std::string(argv[1]) != "permute") return 2;
	int maxdim = atoi(argv[2]); Rng rng(strtoull(argv[3], 0, 10)); long nsample = atol(argv[4]); FILE* out = fopen(argv[5], "w");
	long ncalls = 0;
	for (int n = 1; n <= maxdim; n++) {
		std::vector<size_t> perm(n); std::iota(perm.begin(), perm.end(), 0);
		std::vector<std::vector<size_t>> perms;
		if (n <= 5) { do perms.push_back(perm); while (std::next_permutation(perm.begin(), perm.end())); }
		else for (long k = 0; k < nsample; k++) { for (int i = n - 1; i > 0; i--) std::swap(perm[i], perm[rng.below(i + 1)]); perms.push_back(perm); }
		// malformed arguments: wrong length, duplicate, out of range
		std::vector<std::vector<size_t>> bads;
		{ std::vector<size_t> b(perm.begin(), perm.end()); b.push_back(n); bads.push_back(b); }
		if (n > 1) { std::vector<size_t> b(perm.begin(), perm.end() - 1); bads.push_back(b); }
		{ std::vector<size_t> b(n, 0); bads.push_back(n > 1 ? b : std::vector<size_t>{1}); }
		{ std::vector<size_t> b(perm.begin(), perm.end()); b[0] = n; bads.push_back(b); }
		{ std::vector<size_t> b(perm.begin(), perm.end()); b[n - 1] = (size_t)-1; bads.push_back(b); }
		// entries that are out of range but equal a valid index modulo 2^32 (or 2^16): the argument is a vector of size_t
		for (int sh : {32, 40, 63, 16}) { std::vector<size_t> b(perm.begin(), perm.end()); b[rng.below(n)] += (size_t)1 << sh; bads.push_back(b); }
		bads.push_back({});
		// malformed arguments in ascending order (a shortcut for "already in order" must not let them through)
		{ std::vector<size_t> b(n); std::iota(b.begin(), b.end(), 0); b[n - 1] = n; bads.push_back(b); b[n - 1] = n + 3; bads.push_back(b); b[n - 1] = (size_t)-1; bads.push_back(b);
		  if (n > 1) { std::iota(b.begin(), b.end(), 0); b[n - 1] = b[n - 2]; bads.push_back(b); std::iota(b.begin(), b.end(), 0); b[1] = 0; bads.push_back(b); std::iota(b.begin(), b.end(), 1); bads.push_back(b); } }
		size_t idx = 0;
		for (auto& p : perms) {
			TableSpec s = shape(n, rng, true);
			Table t; PVA::build(t, s, PAD_ZERO);
			Table ref; PVA::build(ref, s, PAD_ZERO);
			std::string pre = proj(t); bool ok = true; bool viaC = idx % 3 == 2;
			try {
				if (viaC) { ::splinetable ct; ct.data = &t; std::vector<size_t> q = p; ok = splinetable_permute(&ct, q.data()) == 0; }
				else t.permuteDimensions(p);
			} catch (std::exception&) { ok = false; }
			JW w; w.s("op", "permute").ia("perm", p).b("ok", ok).raw("pre", pre).raw("post", proj(t)).b("c_api", viaC); w.emit(out); ncalls++;
			if (ok) {
				numeric_same(ref, t, p, rng, out);
				// the inverse permutation restores a table equal to the original
				std::vector<size_t> inv(n); for (int i = 0; i < n; i++) inv[p[i]] = i;
				std::string pre2 = proj(t); bool ok2 = true;
				try { t.permuteDimensions(inv); } catch (std::exception&) { ok2 = false; }
				JW w2; w2.s("op", "permute").ia("perm", inv).b("ok", ok2).raw("pre", pre2).raw("post", proj(t)).b("c_api", false); w2.emit(out); ncalls++;
				if (!(t == ref) || proj(t) != proj(ref)) { nnummis++; JW w3; w3.s("op", "numeric").s("what", "inverse permutation does not restore the table"); w3.emit(out); }
			}
			idx++;
		}
		for (auto& p : bads) {
			TableSpec s = shape(n, rng, true);
			Table t; PVA::build(t, s, PAD_ZERO);
			std::vector<long> pl; for (size_t v : p) pl.push_back(v > 1000 ? 99 : (long)v);
			// through the C++ method, and (arguments of the right length only: the C function takes a bare pointer) the C wrapper
			for (int viaC = 0; viaC < (p.size() == (size_t)n ? 2 : 1); viaC++) {
				std::string pre = proj(t); bool ok = true;
				try {
					if (viaC) { ::splinetable ct; ct.data = &t; std::vector<size_t> q = p; ok = splinetable_permute(&ct, q.data()) == 0; }
					else t.permuteDimensions(p);
				} catch (std::exception&) { ok = false; }
				JW w; w.s("op", "permute").ia("perm", pl).b("ok", ok).raw("pre", pre).raw("post", proj(t)).b("c_api", (bool)viaC); w.emit(out); ncalls++;
			}
		}
	}
	fclose(out);
	printf("{\"calls\":%ld,\"numeric_checks\":%ld,\"numeric_mismatches\":%ld}\n", ncalls, nnum, nnummis);
	return 0;
}
