// C09 / C10 (and thread-count runs for C12): fits problems assembled from the exact ingredients emitted by
// spec/MC_Glam.tla (basis matrices and penalty matrices in rationals) and compares with the solution of the exact
// normal equations.
//   fit_driver fit <axes.ndjson> <problems.ndjson> <seed> <out.ndjson> [mono]
//   fit_driver large <out.ndjson>                                                 one 2-D problem with more than 2^16 coefficients
//   fit_driver threads <axes.ndjson> <problems.ndjson> <seed> <out.ndjson>      coefficient bits of monotonic fits (OMP_NUM_THREADS from env)
#include "evalapi.h"
#include <fstream>
#include <numeric>
typedef long double LD;

struct Axis { int n; std::vector<double> t, xs; std::vector<std::vector<LD>> B; std::vector<std::vector<std::vector<LD>>> P; };
static std::map<int, Axis> AX;
static LD rat(const JV& r) { return (LD)r[0].integer() / (LD)r[1].integer(); }
static std::vector<std::vector<LD>> mat(const JV& m) { std::vector<std::vector<LD>> M; for (auto& row : m.a) { std::vector<LD> r; for (auto& e : row.a) r.push_back(rat(e)); M.push_back(r); } return M; }
static void load_axes(const char* path) {
	std::ifstream f(path); std::string line;
	while (std::getline(f, line)) { if (line.empty()) continue; JV j = jparse(line); Axis a; a.n = (int)j["n"].integer(); for (auto v : j["t"].ints()) a.t.push_back((double)v); for (auto& x : j["xs"].a) a.xs.push_back((double)rat(x)); a.B = mat(j["B"]); for (auto& p : j["P"].a) a.P.push_back(mat(p)); AX[(int)j["id"].integer()] = a; }
}

// dense SPD solve in long double (Cholesky); returns false when not positive definite
static bool chol_solve(std::vector<LD> A, std::vector<LD> b, int n, std::vector<LD>& x, std::vector<LD>* Linv_norm = nullptr) {
	for (int j = 0; j < n; j++) {
		LD s = A[j * n + j]; for (int k = 0; k < j; k++) s -= A[j * n + k] * A[j * n + k];
		if (!(s > 0)) return false; LD d = sqrtl(s); A[j * n + j] = d;
		for (int i = j + 1; i < n; i++) { LD v = A[i * n + j]; for (int k = 0; k < j; k++) v -= A[i * n + k] * A[j * n + k]; A[i * n + j] = v / d; }
	}
	std::vector<LD> y(n); for (int i = 0; i < n; i++) { LD s = b[i]; for (int k = 0; k < i; k++) s -= A[i * n + k] * y[k]; y[i] = s / A[i * n + i]; }
	x.assign(n, 0); for (int i = n - 1; i >= 0; i--) { LD s = y[i]; for (int k = i + 1; k < n; k++) s -= A[k * n + i] * x[k]; x[i] = s / A[i * n + i]; }
	(void)Linv_norm; return true;
}
// 1-norm condition number through the explicit inverse (n is small)
static LD cond1(const std::vector<LD>& A, int n) {
	LD na = 0; for (int j = 0; j < n; j++) { LD s = 0; for (int i = 0; i < n; i++) s += fabsl(A[i * n + j]); na = std::max(na, s); }
	LD ni = 0; std::vector<LD> e(n), col;
	for (int j = 0; j < n; j++) { std::fill(e.begin(), e.end(), 0); e[j] = 1; if (!chol_solve(A, e, n, col)) return INFINITY; LD s = 0; for (int i = 0; i < n; i++) s += fabsl(col[i]); ni = std::max(ni, s); }
	return na * ni;
}

struct Problem {
	int nd; std::vector<int> axes, pens; std::vector<double> lam; int dp, wp; bool scalar;
	std::vector<int> nspl; int ntot;
	// data
	std::vector<std::vector<unsigned>> idx; std::vector<double> z, w;
};
static void build_data(Problem& p, Rng& rng, int increasing = 0, double scale = 1.0) {
	std::vector<int> g(p.nd); size_t rows = 1; for (int d = 0; d < p.nd; d++) { g[d] = (int)AX[p.axes[d]].xs.size(); rows *= g[d]; }
	p.idx.assign(p.nd, {}); p.z.clear(); p.w.clear();
	for (size_t r = 0; r < rows; r++) {
		std::vector<unsigned> id(p.nd); size_t q = r; for (int d = p.nd - 1; d >= 0; d--) { id[d] = (unsigned)(q % g[d]); q /= g[d]; }
		bool keep = p.dp == 1 || (p.dp == 2 ? (r * 7 + 3) % 10 >= 3 : (r * 11 + 5) % 10 >= 5);
		if (!keep) continue;
		for (int d = 0; d < p.nd; d++) p.idx[d].push_back(id[d]);
		double zz = (double)((long)rng.below(11) - 5) + 0.25 * (double)rng.below(4);
		if (increasing) { zz = 2.0; for (int d = 0; d < p.nd; d++) zz += 1.5 * AX[p.axes[d]].xs[id[d]] - 1.5 * AX[p.axes[d]].xs[0]; zz += 0.01 * (double)rng.below(3); }
		// increasing == 2: the same trend with low outliers at the upper end of every dimension - with enough smoothing the
		// unconstrained solution is still increasing (constraint inactive), but not every increment has a positive right-hand side
		if (increasing == 2) { bool top = true; for (int d = 0; d < p.nd; d++) top = top && id[d] + 2 >= (unsigned)g[d]; if (top) zz -= 6.0 + (double)rng.below(3); }
		p.z.push_back(zz * scale); p.w.push_back(p.wp == 1 ? 1.0 : 1.0 + (double)((r * 3) % 5));
	}
}
static void basis_row(const Problem& p, const std::vector<unsigned>& id, std::vector<std::pair<int, LD>>& out) {
	// non-zero entries of the Kronecker basis row for one data point
	out.clear(); out.push_back({0, 1});
	for (int d = 0; d < p.nd; d++) {
		const Axis& a = AX[p.axes[d]]; std::vector<std::pair<int, LD>> nx;
		for (auto& e : out) for (int j = 0; j < p.nspl[d]; j++) { LD b = a.B[id[d]][j]; if (b != 0) nx.push_back({e.first * p.nspl[d] + j, e.second * b}); }
		out.swap(nx);
	}
}
static void normal_eq(const Problem& p, std::vector<LD>& N, std::vector<LD>& r) {
	int n = p.ntot; N.assign((size_t)n * n, 0); r.assign(n, 0); std::vector<std::pair<int, LD>> row; std::vector<unsigned> id(p.nd);
	for (size_t k = 0; k < p.z.size(); k++) {
		for (int d = 0; d < p.nd; d++) id[d] = p.idx[d][k]; basis_row(p, id, row);
		for (auto& a : row) { r[a.first] += (LD)p.w[k] * (LD)p.z[k] * a.second; for (auto& b : row) N[(size_t)a.first * n + b.first] += (LD)p.w[k] * a.second * b.second; }
	}
	// penalty: lambda_d * (I x P_d x I)
	for (int d = 0; d < p.nd; d++) {
		if (p.lam[d] == 0) continue; const auto& P = AX[p.axes[d]].P[p.pens[d]];
		int inner = 1; for (int e = d + 1; e < p.nd; e++) inner *= p.nspl[e]; int outer = 1; for (int e = 0; e < d; e++) outer *= p.nspl[e]; int m = p.nspl[d];
		for (int o = 0; o < outer; o++) for (int i = 0; i < m; i++) for (int j = 0; j < m; j++) { if (P[i][j] == 0) continue; for (int q = 0; q < inner; q++) N[(size_t)((o * m + i) * inner + q) * n + ((o * m + j) * inner + q)] += (LD)p.lam[d] * P[i][j]; }
	}
}
static bool run_fit(const Problem& p, uint32_t monodim, bool shuffled, bool extra_zero, bool capi, std::vector<float>& coef, Rng& rng) {
	size_t rows = p.z.size(); std::vector<size_t> perm(rows); std::iota(perm.begin(), perm.end(), 0);
	if (shuffled) for (size_t i = rows - 1; i > 0; i--) std::swap(perm[i], perm[rng.below(i + 1)]);
	size_t extra = extra_zero ? 5 : 0;
	photospline::ndsparse data(rows + extra, p.nd); std::vector<double> w;
	for (size_t k = 0; k < rows; k++) { std::vector<unsigned> id(p.nd); for (int d = 0; d < p.nd; d++) id[d] = p.idx[d][perm[k]]; data.insertEntry(p.z[perm[k]], id.data()); w.push_back(p.w[perm[k]]); }
	for (size_t k = 0; k < extra; k++) { std::vector<unsigned> id(p.nd); for (int d = 0; d < p.nd; d++) id[d] = (unsigned)rng.below(AX[p.axes[d]].xs.size()); data.insertEntry(1e3 * (double)(k + 1), id.data()); w.push_back(0.0); }
	std::vector<std::vector<double>> coords, knots; std::vector<uint32_t> ord, pen; std::vector<double> sm;
	for (int d = 0; d < p.nd; d++) { coords.push_back(AX[p.axes[d]].xs); knots.push_back(AX[p.axes[d]].t); ord.push_back(AX[p.axes[d]].n); data.ranges[d] = (unsigned)AX[p.axes[d]].xs.size(); }
	// argument forms: smoothing and penalty order may each be given once (applies to every dimension) or per dimension, in any
	// combination; a value is only given once when it is the same in every dimension.  The form rotates with the call count.
	static long form_counter = 0; long form = form_counter++ % 4;
	bool lam_same = true, pen_same = true; for (int d = 1; d < p.nd; d++) { lam_same = lam_same && p.lam[d] == p.lam[0]; pen_same = pen_same && p.pens[d] == p.pens[0]; }
	bool sm_scalar = !capi && lam_same && (p.scalar || form == 2), pen_scalar = !capi && pen_same && (p.scalar || form == 1);
	if (form == 3 && !p.scalar) sm_scalar = pen_scalar = false;
	if (sm_scalar) sm = {p.lam[0]}; else sm = p.lam;
	if (pen_scalar) pen = {(uint32_t)p.pens[0]}; else for (int v : p.pens) pen.push_back(v);
	Table t;
	try {
		if (capi) {
			::splinetable ct; ct.data = &t; std::vector<const double*> cp, kp; std::vector<uint64_t> nk; for (auto& v : coords) cp.push_back(v.data()); for (auto& v : knots) { kp.push_back(v.data()); nk.push_back(v.size()); }
			if (splinetable_glamfit(&ct, &data, w.data(), cp.data(), ord.data(), kp.data(), nk.data(), sm.data(), pen.data(), monodim, false) != 0) return false;
		} else t.fit(data, w, coords, ord, knots, sm, pen, monodim, getenv("VERIF_FIT_VERBOSE") != nullptr);
	} catch (std::exception&) { return false; }
	coef.assign(t.get_coefficients(), t.get_coefficients() + t.get_ncoeffs());
	return true;
}

// One well-posed problem beyond 2^16 coefficients: positions in the flattened normal-equation array F (coefficients squared)
// then exceed 2^32.  Order-1 splines on integer knots, data at every knot and every midpoint of the fully supported range,
// generated from known integer coefficients c0: the residual of c0 is zero and the basis matrix has full column rank, so c0
// is the unique minimiser of the unpenalised objective for any positive weights (Glam.tla: N = B'WB is positive definite).
static int large_mode(const char* outp) {
	FILE* out = fopen(outp, "w"); const int na[2] = {260, 257}; std::vector<std::vector<double>> knots(2), xs(2);
	for (int d = 0; d < 2; d++) { for (int k = 0; k < na[d] + 2; k++) knots[d].push_back(k); for (int k = 2; k <= 2 * na[d]; k++) xs[d].push_back(0.5 * k); }
	auto c0 = [&](int a, int b) { return (double)(((a * 7 + b * 3) % 5) + 1); };
	auto hat = [](double x, int i) { double v = 1 - std::fabs(x - (i + 1)); return v > 0 ? v : 0.0; };   // basis i of order 1 on integer knots peaks at knot i+1
	photospline::ndsparse data(xs[0].size() * xs[1].size(), 2); std::vector<double> w;
	for (size_t i = 0; i < xs[0].size(); i++) for (size_t j = 0; j < xs[1].size(); j++) {
		int a0 = (int)std::floor(xs[0][i]) - 1, b0 = (int)std::floor(xs[1][j]) - 1; double z = 0;
		for (int a = a0; a <= a0 + 1; a++) for (int b = b0; b <= b0 + 1; b++) if (a >= 0 && a < na[0] && b >= 0 && b < na[1]) z += c0(a, b) * hat(xs[0][i], a) * hat(xs[1][j], b);
		unsigned id[2] = {(unsigned)i, (unsigned)j}; data.insertEntry(z, id); w.push_back(1.0 + 0.5 * ((i + 2 * j) % 3));
	}
	data.ranges[0] = (unsigned)xs[0].size(); data.ranges[1] = (unsigned)xs[1].size();
	Table t; bool ok = true; std::string err;
	try { t.fit(data, w, xs, std::vector<uint32_t>{1, 1}, knots, std::vector<double>{0.0, 0.0}, std::vector<uint32_t>{1, 1}, Table::no_monodim, false); }
	catch (std::exception& e) { ok = false; err = e.what(); }
	double worst = 0; long bad = 0;
	if (ok && t.get_ncoeffs() == (uint64_t)na[0] * na[1]) { for (int a = 0; a < na[0]; a++) for (int b = 0; b < na[1]; b++) { double e = std::fabs((double)t.get_coefficients()[(size_t)a * na[1] + b] - c0(a, b)); if (!(e <= 1e-3)) bad++; if (e > worst || e != e) worst = e; } }
	else ok = false;
	JW wj; wj.s("kind", "large").b("completed", ok).s("err", err).i("ncoef", (long)na[0] * na[1]).i("bad", bad).d("worst", worst); wj.emit(out); fclose(out);
	return 0;
}

int main(int argc, char** argv) {
	if (argc >= 3 && std::string(argv[1]) == "large") return large_mode(argv[2]);
	if (argc < 6) return 2; std::string mode = argv[1]; load_axes(argv[2]); std::ifstream pf(argv[3]); Rng rng(strtoull(argv[4], 0, 10)); FILE* out = fopen(argv[5], "w");
	bool mono = argc > 6 && std::string(argv[6]) == "mono"; std::string line; long np = 0;
	if (!getenv("OMP_NUM_THREADS")) setenv("OMP_NUM_THREADS", "2", 1);
	while (std::getline(pf, line)) {
		if (line.empty()) continue; JV j = jparse(line); const JV& q = j["p"]; Problem p; p.nd = (int)q["axes"].size();
		for (auto v : q["axes"].ints()) p.axes.push_back((int)v); for (auto v : q["pens"].ints()) p.pens.push_back((int)v); for (auto v : q["lam"].ints()) p.lam.push_back((double)v);
		p.dp = (int)q["data"].integer(); p.wp = (int)q["weights"].integer(); p.scalar = q["scalar"].b; p.ntot = 1;
		for (int d = 0; d < p.nd; d++) { p.nspl.push_back((int)AX[p.axes[d]].t.size() - AX[p.axes[d]].n - 1); p.ntot *= p.nspl.back(); }
		// monotonic fits: a third of the problems with the data scaled by an exact power of two (the solvers' tolerances are
		// absolute); for those only the ordering of the coefficients is judged, not the inactive-constraint clause
		static const double SC[] = {1.0, 1.0, 1.0, 1.0 / 8192, 1.0, 1.0 / 8388608, 1.0, 1.0, 256.0};
		np++; double scale = mono ? SC[np % 9] : 1.0; build_data(p, rng, mono ? (np % 4 == 0 ? 1 : np % 4 == 2 ? 2 : 0) : 0, scale);
		// unconstrained fits: some problems with all weights AND all smoothing strengths multiplied by one power of two - the
		// normal equations scale as a whole and the minimiser is the same (nothing in the solver may depend on their absolute size)
		static const int WS[] = {0, 0, -40, 0, -55, 0, 30};
		if (!mono && mode == "fit" && WS[np % 7]) { for (auto& v : p.w) v = std::ldexp(v, WS[np % 7]); for (auto& v : p.lam) v = std::ldexp(v, WS[np % 7]); }
		std::vector<LD> N, r, cstar; normal_eq(p, N, r);
		if (mode == "threads") {
			for (int d = 0; d < p.nd; d++) { std::vector<float> c; bool ok = run_fit(p, d, false, false, false, c, rng); std::string bits; for (float v : c) bits += bits32(v); JW w; w.s("kind", "threads").i("pid", np).i("monodim", d).b("ok", ok).s("bits", bits); w.emit(out); }
			continue;
		}
		bool pd = chol_solve(N, r, p.ntot, cstar); LD cond = pd ? cond1(N, p.ntot) : INFINITY;
		if (!pd || !(cond < 1e7)) { JW w; w.s("kind", "skipped").i("pid", np).s("why", pd ? "ill-conditioned" : "not positive definite").d("cond", (double)cond); w.emit(out); continue; }
		LD cmax = 0; for (LD v : cstar) cmax = std::max(cmax, fabsl(v));
		LD bound = (32 * ldexpl(1, -24) + 64 * cond * ldexpl(1, -53)) * cmax + ldexpl(1, -100);
		if (!mono) {
			for (int variant = 0; variant < 4; variant++) {
				std::vector<float> c; bool ok = run_fit(p, PHOTOSPLINE_GLAM_NO_MONODIM, variant == 1, variant == 2, variant == 3, c, rng);
				LD err = INFINITY; if (ok && (int)c.size() == p.ntot) { err = 0; for (int i = 0; i < p.ntot; i++) { LD e = fabsl((LD)c[i] - cstar[i]); if (!(e <= err)) err = std::isnan((double)e) ? INFINITY : std::max(err, e); } }
				static const char* V[] = {"plain", "shuffled", "zero-weight-extras", "c-api"};
				JW w; w.s("kind", "fit").i("pid", np).i("log2_weight_scale", WS[np % 7]).s("variant", V[variant]).b("completed", ok).b("within", ok && err <= bound).d("err", (double)err).d("bound", (double)bound).d("cond", (double)cond).i("ncoef", p.ntot).i("ndim", p.nd).raw("problem", line.substr(line.find("\"p\":") + 4, line.rfind('}') - line.find("\"p\":") - 4)); w.emit(out);
			}
			continue;
		}
		// ---------------- monotonic fits (C10)
		for (int md = 0; md < p.nd; md++) {
			// every third monotonic fit goes through the C interface (splinetable_glamfit) and is judged by the same rules
			const bool via_c = (np + md) % 3 == 2;
			std::vector<float> c; bool ok = run_fit(p, md, false, false, via_c, c, rng);
			int m = p.nspl[md]; int inner = 1; for (int e = md + 1; e < p.nd; e++) inner *= p.nspl[e]; int outer = p.ntot / (m * inner);
			// ranks of the coefficients along the monotonic dimension (order relations only), one line per fibre
			std::ostringstream rk; rk << "["; bool nondecr = ok; int nf = 0;
			if (ok) for (int o = 0; o < outer; o++) for (int q = 0; q < inner; q++) {
				std::vector<float> fib(m); for (int i = 0; i < m; i++) fib[i] = c[(size_t)(o * m + i) * inner + q];
				std::vector<float> sorted = fib; std::sort(sorted.begin(), sorted.end()); sorted.erase(std::unique(sorted.begin(), sorted.end()), sorted.end());
				rk << (nf++ ? "," : "") << "["; for (int i = 0; i < m; i++) { int rnk = std::isnan(fib[i]) ? -1 : (int)(std::lower_bound(sorted.begin(), sorted.end(), fib[i]) - sorted.begin()); rk << (i ? "," : "") << rnk; if (i && !(fib[i] >= fib[i - 1])) nondecr = false; } rk << "]";
			}
			rk << "]";
			// T-spline variables a (first differences along md) and the KKT classification of N_T a - r_T
			std::string acls = "[", gcls = "["; bool inactive = false, same_as_unconstrained = true; LD errU = 0;
			if (ok) {
				auto Lmul = [&](const std::vector<LD>& a) { std::vector<LD> cc(p.ntot); for (int o = 0; o < outer; o++) for (int q = 0; q < inner; q++) { LD s = 0; for (int i = 0; i < m; i++) { s += a[(size_t)(o * m + i) * inner + q]; cc[(size_t)(o * m + i) * inner + q] = s; } } return cc; };
				auto LTmul = [&](const std::vector<LD>& g) { std::vector<LD> aa(p.ntot); for (int o = 0; o < outer; o++) for (int q = 0; q < inner; q++) { LD s = 0; for (int i = m - 1; i >= 0; i--) { s += g[(size_t)(o * m + i) * inner + q]; aa[(size_t)(o * m + i) * inner + q] = s; } } return aa; };
				std::vector<LD> cc(c.begin(), c.end()), a(p.ntot);
				for (int o = 0; o < outer; o++) for (int q = 0; q < inner; q++) for (int i = 0; i < m; i++) { size_t k = (size_t)(o * m + i) * inner + q; a[k] = cc[k] - (i ? cc[k - inner] : 0); }
				std::vector<LD> Nc(p.ntot, 0); for (int i = 0; i < p.ntot; i++) for (int k = 0; k < p.ntot; k++) Nc[i] += N[(size_t)i * p.ntot + k] * cc[k];
				std::vector<LD> gc(p.ntot); LD gscale = 0; for (int i = 0; i < p.ntot; i++) { gc[i] = Nc[i] - r[i]; gscale = std::max(gscale, fabsl(Nc[i]) + fabsl(r[i])); }
				std::vector<LD> g = LTmul(gc); LD amax = 0; for (LD v : a) amax = std::max(amax, fabsl(v)); (void)Lmul;
				LD tol_g = 1e-3L * gscale * m + ldexpl(1, -60), tol_a = 1e-5L * amax + ldexpl(1, -100);   // float storage of c limits how small the gradient can be
				for (int i = 0; i < p.ntot; i++) { acls += std::string(i ? "," : "") + (a[i] > tol_a ? "\"pos\"" : (a[i] < -tol_a ? "\"neg\"" : "\"zero\"")); gcls += std::string(i ? "," : "") + (g[i] > tol_g ? "\"pos\"" : (g[i] < -tol_g ? "\"neg\"" : "\"zero\"")); }
				// inactive constraint: the unconstrained optimum is itself non-negative and non-decreasing along md
				inactive = true; for (int o = 0; o < outer && inactive; o++) for (int q = 0; q < inner && inactive; q++) for (int i = 0; i < m; i++) { size_t k = (size_t)(o * m + i) * inner + q; LD ai = cstar[k] - (i ? cstar[k - inner] : 0); if (!(ai > 1e-4L * cmax)) { inactive = false; break; } }
				for (int i = 0; i < p.ntot; i++) errU = std::max(errU, fabsl(cc[i] - cstar[i]));
				same_as_unconstrained = errU <= bound * 4 + 1e-4L * cmax * 0;
				if (scale != 1.0) inactive = false;
			}
			acls += "]"; gcls += "]";
			JW w; w.s("kind", "mono").s("api", via_c ? "c" : "cxx").i("pid", np).i("monodim", md).b("completed", ok).b("nondecreasing", nondecr).raw("ranks", rk.str()).raw("a", acls).raw("g", gcls).b("inactive", inactive).b("same_as_unconstrained", same_as_unconstrained)
			     .d("errU", (double)errU).d("bound", (double)bound).d("cond", (double)cond).i("ndim", p.nd).d("scale", scale).raw("problem", line.substr(line.find("\"p\":") + 4, line.rfind('}') - line.find("\"p\":") - 4)); w.emit(out);
		}
	}
	fclose(out); printf("{\"problems\":%ld}\n", np); return 0;
}
