// harness-side helpers: build a splinetable from an abstract description through the
// friend hook (guard PHOTOSPLINE_VERIF), project a real table back to the abstract state.
#ifndef VERIF_PST_H
#define VERIF_PST_H
#include <photospline/splinetable.h>
#include <vector>
#include <string>
#include <limits>
#include <cmath>
#include <cstring>
#include <unistd.h>
#include <sys/wait.h>
#include "json.h"

struct TableSpec {
	uint32_t ndim = 0;
	std::vector<uint32_t> order;
	std::vector<std::vector<double>> knots;
	std::vector<float> coeffs;          // row-major, naxes[d] = nknots[d]-order[d]-1
	std::vector<double> extents;        // 2*ndim or empty (= derive from knots)
	std::vector<double> periods;        // ndim or empty (= NULL)
	bool no_extents = false;            // leave extents NULL
	std::vector<uint64_t> naxes() const {
		std::vector<uint64_t> n(ndim);
		for (uint32_t i = 0; i < ndim; i++) n[i] = knots[i].size() - order[i] - 1;
		return n;
	}
	uint64_t ncoeffs() const { uint64_t n = 1; for (auto a : naxes()) n *= a; return n; }
};

enum PadMode { PAD_NAN, PAD_ZERO, PAD_GARBAGE, PAD_EXTEND };

struct photospline_verif_access {
	template <class T>
	static void build(T& t, const TableSpec& s, PadMode pad = PAD_NAN) {
		if (t.ndim != 0) throw std::runtime_error("harness: build into populated table");
		uint32_t nd = s.ndim;
		t.order = t.template allocate<uint32_t>(nd);
		t.nknots = t.template allocate<uint64_t>(nd);
		t.naxes = t.template allocate<uint64_t>(nd);
		t.strides = t.template allocate<uint64_t>(nd);
		t.knots = t.template allocate<typename T::double_ptr>(nd);
		for (uint32_t i = 0; i < nd; i++) {
			t.order[i] = s.order[i];
			t.nknots[i] = s.knots[i].size();
			t.naxes[i] = s.knots[i].size() - s.order[i] - 1;
			uint32_t o = s.order[i];
			size_t nk = s.knots[i].size();
			t.knots[i] = t.template allocate<double>(nk + 2 * o) + o;
			for (size_t j = 0; j < nk; j++) t.knots[i][j] = s.knots[i][j];
			for (uint32_t j = 1; j <= o; j++) {
				double lo, hi;
				switch (pad) {
					case PAD_NAN: lo = hi = std::numeric_limits<double>::quiet_NaN(); break;
					case PAD_ZERO: lo = hi = 0; break;
					case PAD_GARBAGE: lo = 1e300 * ((j % 2) ? 1 : -1); hi = -7.25e-300 * j; break;
					default: lo = s.knots[i][0] - j; hi = s.knots[i][nk - 1] + j; break;
				}
				t.knots[i][-(long)j] = lo;
				t.knots[i][nk - 1 + j] = hi;
			}
		}
		t.strides[nd - 1] = 1;
		for (uint32_t i = nd - 1; i > 0; i--) t.strides[i - 1] = t.strides[i] * t.naxes[i];
		uint64_t nc = t.strides[0] * t.naxes[0];
		if (s.coeffs.size() != nc) throw std::runtime_error("harness: coefficient count mismatch");
		t.coefficients = t.template allocate<float>(nc);
		for (uint64_t i = 0; i < nc; i++) t.coefficients[i] = s.coeffs[i];
		if (!s.no_extents) {
			t.extents = t.template allocate<typename T::double_ptr>(nd);
			t.extents[0] = t.template allocate<double>(2 * nd);
			for (uint32_t i = 0; i < nd; i++) {
				t.extents[i] = &t.extents[0][2 * i];
				if (s.extents.size() == 2 * nd) { t.extents[i][0] = s.extents[2 * i]; t.extents[i][1] = s.extents[2 * i + 1]; }
				else { t.extents[i][0] = s.knots[i][s.order[i]]; t.extents[i][1] = s.knots[i][s.knots[i].size() - s.order[i] - 1]; }
			}
		}
		if (s.periods.size() == nd) {
			t.periods = t.template allocate<double>(nd);
			for (uint32_t i = 0; i < nd; i++) t.periods[i] = s.periods[i];
		}
		t.ndim = nd;   // last: the object only becomes "populated" once complete
	}
	template <class T> static bool has_periods(const T& t) { return t.periods != nullptr; }
	template <class T> static bool has_extents(const T& t) { return t.extents != nullptr; }
	template <class T> static double period(const T& t, uint32_t d) { return t.periods[d]; }
	template <class T> static double extent(const T& t, uint32_t d, int hi) { return t.extents[d][hi]; }
	template <class T> static uint32_t naux(const T& t) { return t.naux; }
	template <class T> static const char* auxkey(const T& t, uint32_t i) { return &t.aux[i][0][0]; }
	template <class T> static const char* auxval(const T& t, uint32_t i) { return &t.aux[i][1][0]; }
	template <class T> static bool all_null(const T& t) {
		return t.ndim == 0 && !t.order && !t.knots && !t.nknots && !t.extents && !t.periods && !t.coefficients && !t.naxes && !t.strides;
	}
	template <class T> static bool aux_null(const T& t) { return t.naux == 0 && !t.aux; }
	template <class T> static typename T::allocator_type& alloc(T& t) { return t.allocator; }
	// which core did get_evaluator select? (drift reporting for C03)
	template <class T, class F> static int evaluator_class(const T& t, const typename T::template evaluator_type<F>& e) {
		if (e.eval_ptr == &T::template ndsplineeval_core<F>) return 0;  // generic
		return 1;                                                        // some specialisation
	}
};
typedef photospline_verif_access PVA;

inline TableSpec spec_from_json(const JV& j) {
	TableSpec s;
	const JV& o = j["order"];
	s.ndim = o.size();
	for (auto& e : o.a) s.order.push_back((uint32_t)e.integer());
	for (auto& k : j["knots"].a) s.knots.push_back(k.nums());
	if (j.has("coeffs")) for (auto& c : j["coeffs"].a) s.coeffs.push_back((float)c.num());
	if (j.has("extents")) s.extents = j["extents"].nums();
	if (j.has("periods")) s.periods = j["periods"].nums();
	return s;
}

extern "C" int __lsan_do_recoverable_leak_check();
// run f in a forked child; classify how it ended.  returns "ok", "exit<n>", "asan", "ubsan", "assert", "signal<n>", "hang"
template <class F>
std::string in_child(F f, int timeout_s = 20, std::string* out = nullptr) {
	int pfd[2]; if (pipe(pfd)) return "pipe-failed";
	int efd[2]; if (pipe(efd)) return "pipe-failed";
	fflush(stdout); fflush(stderr);
	pid_t pid = fork();
	if (pid == 0) {
		close(pfd[0]); close(efd[0]);
		dup2(efd[1], 2);
		alarm(timeout_s);
		std::string r;
		try { r = f(); } catch (std::exception& e) { r = std::string("uncaught:") + e.what(); } catch (...) { r = "uncaught"; }
		ssize_t w = write(pfd[1], r.data(), r.size()); (void)w;
		close(pfd[1]);
		_exit(0);
	}
	close(pfd[1]); close(efd[1]);
	std::string res, err; char buf[4096]; ssize_t n;
	while ((n = read(pfd[0], buf, sizeof buf)) > 0) res.append(buf, n);
	while ((n = read(efd[0], buf, sizeof buf)) > 0) if (err.size() < 20000) err.append(buf, n);
	close(pfd[0]); close(efd[0]);
	int st = 0; waitpid(pid, &st, 0);
	if (out) *out = res;
	std::string verdict;
	if (WIFEXITED(st) && WEXITSTATUS(st) == 0) verdict = "ok";
	else if (WIFSIGNALED(st) && WTERMSIG(st) == SIGALRM) verdict = "hang";
	else if (err.find("AddressSanitizer") != std::string::npos) {
		verdict = "asan";
		size_t p = err.find("AddressSanitizer: ");
		if (p != std::string::npos) { size_t q = err.find_first_of(" \n", p + 18); verdict += ":" + err.substr(p + 18, q - p - 18); }
	}
	else if (err.find("runtime error") != std::string::npos) verdict = "ubsan";
	else if (err.find("Assertion") != std::string::npos) verdict = "assert";
	else if (err.find("LeakSanitizer") != std::string::npos) verdict = "leak";
	else if (WIFSIGNALED(st)) verdict = "signal" + std::to_string(WTERMSIG(st));
	else verdict = "exit" + std::to_string(WEXITSTATUS(st));
	if (out && (verdict != "ok" || res.find("LEAK") == 0)) *out += "\n[stderr] " + (err.size() > 6000 ? err.substr(err.size() - 6000) : err);
	return verdict;
}

#endif
