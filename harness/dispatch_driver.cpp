// C03: for every configuration emitted by spec/Dispatch.tla build a table, evaluate at interior, margin, on-knot
// and random points through every path, and log the returned bits per path for Trace_Dispatch.
//   dispatch_driver <configs.ndjson> <seed> <out.ndjson>
#include "evalapi.h"
#include <fstream>
#include <iostream>

static std::string jbits(const std::vector<std::string>& v) { std::string s = "["; for (size_t i = 0; i < v.size(); i++) s += (i ? ",\"" : "\"") + v[i] + "\""; return s + "]"; }

int main(int argc, char** argv) {
	if (argc < 4) return 2;
	std::ifstream f(argv[1]); Rng rng(strtoull(argv[2], 0, 10)); FILE* out = fopen(argv[3], "w"); std::string line; long ncfg = 0, nev = 0;
	while (std::getline(f, line)) {
		if (line.empty()) continue;
		JV c = jparse(line); int nd = (int)c["nd"].integer(); std::vector<long long> ord = c["ord"].ints();
		for (int extra = 0; extra < 2; extra++) {
			TableSpec s; s.ndim = nd; double size = 1;
			for (int d = 0; d < nd; d++) {
				int n = (int)ord[d]; int nk = 2 * n + 2 + (extra && size < 2e5 ? 2 + d % 2 : 0);
				s.order.push_back(n);
				std::vector<double> k; double v = -1.5 + 0.25 * d; for (int j = 0; j < nk; j++) { k.push_back(v); v += 0.5 + 0.75 * rng.unit(); }
				s.knots.push_back(k); size *= nk - n - 1;
			}
			if (size > 3e7) continue;
			s.coeffs.resize(s.ncoeffs()); for (auto& v : s.coeffs) v = (float)rng.range(-1, 1);
			Table t; PVA::build(t, s, PAD_NAN); EvalPaths ep(t);
			int cls_f = PVA::evaluator_class<Table, float>(t, ep.ef), cls_d = PVA::evaluator_class<Table, double>(t, ep.ed);
			for (int pt = 0; pt < 5; pt++) {
				std::vector<double> x(nd);
				for (int d = 0; d < nd; d++) {
					const std::vector<double>& k = s.knots[d]; int n = s.order[d]; int na = (int)k.size() - n - 1;
					switch (pt) {
						case 0: x[d] = 0.5 * (k[n] + k[na]); break;                                    // interior
						case 1: x[d] = d % 2 ? 0.5 * (k[0] + k[1]) : 0.5 * (k[k.size() - 2] + k[k.size() - 1]); break;  // margins
						case 2: x[d] = k[n + (na - n) / 2 + (na > n + 1 ? 1 : 0)]; break;              // on a knot
						case 3: x[d] = k[na]; break;                                                   // upper end of full support
						default: x[d] = k[0] + (k[k.size() - 1] - k[0]) * (0.01 + 0.98 * rng.unit());
					}
				}
				std::vector<std::string> cen;
				std::vector<int> c0(nd, -1);
				bool allok = true;
				for (int p = 0; p < EvalPaths::NSC; p++) { std::vector<int> cc(nd, -1); bool ok = ep.sc(p, x.data(), cc.data()); std::string r = ok ? "ok" : "fail"; for (int v : cc) r += ":" + std::to_string(v); cen.push_back(r); if (p == 0) c0 = cc; allok = allok && ok; }
				JW w; w.i("cfg", ncfg).i("nd", nd).ia("ord", ord).i("pt", pt).i("extra", extra).i("generic_f", cls_f == 0).i("generic_d", cls_d == 0).raw("centers", jbits(cen));
				if (allok) {
					std::vector<std::string> fv, dv, fm, dm, fg, dg, fd;
					for (int p = 0; p < EvalPaths::NVAL; p++) { double v = ep.val(p, x.data(), c0.data(), 0); (EvalPaths::valprec(p) == 'f' ? fv : dv).push_back(bits64(v)); }
					for (int p = 0; p < EvalPaths::NCALL; p++) { double v = ep.call(p, x.data()); (EvalPaths::callprec(p) == 'f' ? fv : dv).push_back(bits64(v)); }
					int mask = 1 + (int)rng.below((1u << nd) - 1);
					for (int p = 0; p < EvalPaths::NVAL; p++) { double v = ep.val(p, x.data(), c0.data(), mask); (EvalPaths::valprec(p) == 'f' ? fm : dm).push_back(bits64(v)); }
					w.raw("fvalue", jbits(fv)).raw("dvalue", jbits(dv)).raw("fmask", jbits(fm)).raw("dmask", jbits(dm));
					if (nd + 1 <= PHOTOSPLINE_MAXDIM) {
						std::string l0f, l0d;
						for (int p = 0; p < EvalPaths::NGRAD; p++) {
							std::vector<double> g(nd + 1); ep.grad(p, x.data(), c0.data(), g.data());
							std::string r; for (double v : g) r += bits64(v);
							(EvalPaths::gradprec(p) == 'f' ? fg : dg).push_back(r);
							if (p == 0) l0f = bits64(g[0]); if (p == 1) l0d = bits64(g[0]);
						}
						w.raw("fgrad", jbits(fg)).raw("dgrad", jbits(dg));
						w.raw("gradlane0_f", jbits({l0f, fv[0]})).raw("gradlane0_d", jbits({l0d, dv[0]}));
					}
					std::vector<unsigned> dd(nd); for (int d = 0; d < nd; d++) dd[d] = (unsigned)rng.below(3);
					for (int p = 0; p < EvalPaths::NDER; p++) if (EvalPaths::derprec(p) == 'f') fd.push_back(bits64(ep.der(p, x.data(), c0.data(), dd.data())));
					w.raw("fderiv", jbits(fd));
				}
				w.emit(out); nev++;
			}
		}
		ncfg++;
	}
	fclose(out);
	printf("{\"configs\":%ld,\"events\":%ld}\n", ncfg, nev);
	return 0;
}
