// C04 / C05 conformance driver for center lookup.
//   centers_driver replay <cases.ndjson(sorted by n,t)> <seed>     replay Centers.tla states (expected ok/center)
//   centers_driver safety <cases.ndjson> <seed>                    run every entry point on every case (sanitizers decide)
//   centers_driver random <count> <seed>                           own random executions, logged on the lattice for Trace_Centers
#include "evalapi.h"
#include <fstream>
#include <iostream>
#include <algorithm>
#include <sys/mman.h>

static const long NINF = -1000000, PINF = 1000000, XNAN = 999999;

// strictly increasing maps from knot class m (-1 .. M+1) to doubles
static const int NMAPS = 7;
static double dmap(int map, int m, int M) {
	switch (map) {
		case 0: return m;
		case 1: return -7.5 + 1.25 * m * std::abs(m);
		case 2: return std::ldexp(1.0, 40 * m - 300);
		case 3: return -std::ldexp(1.0, 300 - 40 * m);
		case 4: return (4.0 * m) * std::numeric_limits<double>::denorm_min();
		case 5: return 1e308 - (M - m) * 1e294;
		// two clusters at the two ends of the double range: the knot range - and the fully supported range of most knot vectors -
		// is wider than DBL_MAX, so neither hi - lo nor x - lo may be formed
		default: return 2 * m < M ? -1.7e308 + m * 1e294 : 1.7e308 - (M - m) * 1e294;
	}
}
static double lattice_to_double(int map, long p, int M) {
	if (p == NINF) return -INFINITY;
	if (p == PINF) return INFINITY;
	if (p == XNAN) return std::numeric_limits<double>::quiet_NaN();
	long m = p >= 0 ? p / 4 : -((-p + 3) / 4);
	long r = p - 4 * m;
	double a = dmap(map, (int)m, M);
	if (r == 0) return a;
	double b = dmap(map, (int)m + 1, M);
	if (r == 1) return std::nextafter(a, INFINITY);
	if (r == 3) return std::nextafter(b, -INFINITY);
	return a / 2 + b / 2;
}

struct CCase { int n; std::vector<long> t; long x; bool ok; int c; };
static bool parse(const std::string& line, CCase& c) {
	if (line.empty()) return false;
	JV j = jparse(line);
	c.n = j["n"].integer(); { c.t.clear(); for (auto v : j["t"].ints()) c.t.push_back((long)v); } c.x = j["x"].integer(); c.ok = j["ok"].b; c.c = j["c"].integer();
	return true;
}

static TableSpec spec1d(int n, const std::vector<long>& t, int map, Rng& rng) {
	TableSpec s; s.ndim = 1; s.order = {(uint32_t)n};
	int M = (int)(t.back() / 4);
	std::vector<double> k; for (long v : t) k.push_back(dmap(map, (int)(v / 4), M));
	s.knots = {k};
	s.coeffs.resize(s.ncoeffs());
	for (auto& v : s.coeffs) v = (float)rng.range(0.5, 2.0);
	return s;
}

static long nmis = 0, nev = 0;
static void mismatch(const char* kind, const std::string& api, const CCase& c, int map, const std::string& what, long got_ok, long got_c) {
	if (++nmis > 300) return;
	JW w; w.s("kind", kind).s("api", api).i("n", c.n).ia("t", c.t).i("x", c.x).b("want_ok", c.ok).i("want_c", c.c).i("got_ok", got_ok).i("got_c", got_c).i("map", map).s("what", what);
	w.emit();
}

static int replay(const char* path, uint64_t seed) {
	std::ifstream f(path); std::string line; Rng rng(seed);
	std::vector<CCase> group; CCase c; long ncases = 0, ngroups = 0;
	auto flush = [&]() {
		if (group.empty()) return;
		ngroups++;
		alarm(120);   // termination watchdog: a lookup that does not return kills the driver with SIGALRM
		const CCase& g = group[0];
		int M = (int)(g.t.back() / 4);
		for (int map = 0; map < NMAPS; map++) {
			Table t1; PVA::build(t1, spec1d(g.n, g.t, map, rng), PAD_NAN);
			EvalPaths p1(t1);
			// the same axis embedded as dimension 1 of a 3-D table, so that a failing neighbour dimension is exercised
			TableSpec s3; s3.ndim = 3; s3.order = {1, (uint32_t)g.n, 2};
			TableSpec s1 = spec1d(g.n, g.t, map, rng);
			s3.knots = {{0, 1, 2, 3}, s1.knots[0], {-3, -2, -1, 0, 1, 2, 3}};
			s3.coeffs.assign(s3.ncoeffs(), 1.0f);
			Table t3; PVA::build(t3, s3, PAD_NAN);
			EvalPaths p3(t3);
			// ... and as the last dimension of a 9-D table (eight one-interval order-0 neighbours): lookup and evaluation have no
			// dimension limit, only the gradient entry points have
			TableSpec s9; s9.ndim = 9; s9.order.assign(9, 0); s9.order[8] = (uint32_t)g.n;
			s9.knots.assign(9, std::vector<double>{0, 1}); s9.knots[8] = s1.knots[0];
			s9.coeffs.resize(s9.ncoeffs());
			for (auto& v : s9.coeffs) v = (float)rng.range(0.5, 2.0);
			Table t9; PVA::build(t9, s9, PAD_NAN);
			EvalPaths p9(t9);
			for (auto& cs : group) {
				double x = lattice_to_double(map, cs.x, M);
				for (int p = 0; p < EvalPaths::NSC; p++) {
					int got = -77; bool ok = p1.sc(p, &x, &got); nev++;
					if (ok != cs.ok) mismatch("accept", EvalPaths::scname(p), cs, map, "lookup accepted/rejected wrongly", ok, got);
					else if (ok && got != cs.c) mismatch("center", EvalPaths::scname(p), cs, map, "wrong center", ok, got);
				}
				// call operator: zero exactly when lookup fails, the evaluated value otherwise
				{
					double v = t1(&x); nev++;
					if (!cs.ok) { if (!(v == 0)) mismatch("call", "table()", cs, map, "call operator non-zero although lookup must fail", 0, 0); }
					else { int cc = cs.c; double w = t1.ndsplineeval<float>(&x, &cc, 0); if (memcmp(&v, &w, 8) != 0 && !(std::isnan(v) && std::isnan(w))) mismatch("call", "table()", cs, map, "call operator differs from ndsplineeval at the returned center", 1, cc); }
				}
				// 9-D embedding: lookup, then every call operator (zero exactly when lookup fails, else the value at the returned centers)
				for (int k = 0; k < 2; k++) {
					double xx[9] = {.5, .5, .5, .5, .5, .5, .5, .5, x}; if (k) xx[(size_t)rng.below(8)] = 1.5;
					int got[9] = {-77, -77, -77, -77, -77, -77, -77, -77, -77};
					bool want = cs.ok && k == 0;
					bool ok = p9.sc((int)(rng.below(EvalPaths::NSC)), xx, got); nev++;
					if (ok != want) mismatch("accept", "9d", cs, map, "9-D lookup accepted/rejected wrongly (variant " + std::to_string(k) + ")", ok, got[8]);
					else if (ok && (got[8] != cs.c || got[0] != 0 || got[7] != 0)) mismatch("center", "9d", cs, map, "wrong centers in 9-D", ok, got[8]);
					for (int p = 0; p < EvalPaths::NCALL; p++) {
						double v = p9.call(p, xx); nev++;
						if (!want) { if (!(v == 0)) mismatch("call", std::string("9d ") + EvalPaths::callname(p), cs, map, "call operator non-zero although lookup must fail", 0, 0); }
						else {
							int cc[9] = {0, 0, 0, 0, 0, 0, 0, 0, cs.c};
							double w = p == 2 ? t9.ndsplineeval<double>(xx, cc, 0) : t9.ndsplineeval<float>(xx, cc, 0);
							if (memcmp(&v, &w, 8) != 0 && !(std::isnan(v) && std::isnan(w))) mismatch("call", std::string("9d ") + EvalPaths::callname(p), cs, map, "call operator differs from ndsplineeval at the returned centers", 1, cs.c);
						}
					}
				}
				// 3-D embedding: in-range neighbours, then a failing neighbour after and before this axis
				const double others[3][2] = {{1.5, 0.25}, {1.5, 7.0}, {-1.0, 0.25}};
				for (int k = 0; k < 3; k++) {
					double xx[3] = {others[k][0], x, others[k][1]}; int got[3] = {-77, -77, -77};
					bool want = cs.ok && k == 0;
					bool ok = p3.sc((int)(rng.below(EvalPaths::NSC)), xx, got); nev++;
					if (ok != want) mismatch("accept", "3d", cs, map, "3-D lookup accepted/rejected wrongly (variant " + std::to_string(k) + ")", ok, got[1]);
					else if (ok && (got[1] != cs.c || got[0] != 1 || got[2] != 3)) mismatch("center", "3d", cs, map, "wrong centers in 3-D", ok, got[1]);
				}
			}
		}
		ncases += group.size();
		group.clear();
	};
	while (std::getline(f, line)) {
		if (!parse(line, c)) continue;
		if (!group.empty() && (group[0].n != c.n || group[0].t != c.t)) flush();
		group.push_back(c);
	}
	flush();
	JW w; w.s("kind", "summary").i("cases", ncases).i("groups", ngroups).i("evaluations", nev).i("mismatches", nmis).i("maps", NMAPS); w.emit();
	return 0;
}

// ------------------------------------------------------------------------------------------------
// safety: everything a caller can do with a coordinate vector, results ignored; ASan/UBSan/assert watch.
static void exercise(const Table& t, const EvalPaths& ep, const double* x, int D) {
	std::vector<int> c(D, 0); std::vector<double> out(D + 2);
	volatile double sink = 0;
	for (int p = 0; p < EvalPaths::NCALL; p++) sink = sink + ep.call(p, x);
	for (int p = 0; p < EvalPaths::NSC; p++) {
		if (!ep.sc(p, x, c.data())) continue;
		for (int q = 0; q < EvalPaths::NVAL; q++) for (int mk = 0; mk < (1 << D); mk++) sink = sink + ep.val(q, x, c.data(), mk);
		for (int q = 0; q < EvalPaths::NGRAD; q++) { try { ep.grad(q, x, c.data(), out.data()); } catch (std::runtime_error&) {} }
		std::vector<unsigned> d(D);
		for (unsigned m = 0; m < 4; m++) { for (int k = 0; k < D; k++) d[k] = (m + k) % 4; for (int q = 0; q < EvalPaths::NDER; q++) sink = sink + ep.der(q, x, c.data(), d.data()); }
	}
	(void)t;
}

static int safety(const char* path, uint64_t seed) {
	// the parent forks a worker that runs through the cases; a shared counter tells the parent which case killed it
	std::vector<std::string> lines; { std::ifstream f(path); std::string l; while (std::getline(f, l)) if (!l.empty()) lines.push_back(l); }
	long* shared = (long*)mmap(nullptr, 4096, PROT_READ | PROT_WRITE, MAP_SHARED | MAP_ANONYMOUS, -1, 0);
	shared[0] = 0; shared[1] = 0;   // next case to run, evaluations
	long crashes = 0;
	while (shared[0] < (long)lines.size() && crashes < 6) {   // a defect that hangs or crashes shows up in the first few cases; do not spend hours on it
		std::string detail;
		std::string v = in_child([&]() -> std::string {
			Rng rng(seed);
			Table* tb = nullptr; EvalPaths* ep = nullptr; Table* t2 = nullptr; EvalPaths* ep2 = nullptr; CCase prev; prev.n = -1; int curmap = -1;
			for (long i = shared[0]; i < (long)lines.size(); i++) {
				CCase c; parse(lines[i], c);
				int map = (int)(i % NMAPS);
				if (c.n != prev.n || c.t != prev.t || map != curmap) {
					delete ep; delete tb; delete ep2; delete t2;
					tb = new Table(); PVA::build(*tb, spec1d(c.n, c.t, map, rng), PAD_GARBAGE); ep = new EvalPaths(*tb);
					TableSpec s2; s2.ndim = 2; s2.order = {(uint32_t)c.n, 1}; s2.knots = {spec1d(c.n, c.t, map, rng).knots[0], {0, 1, 2, 3, 4}}; s2.coeffs.assign(s2.ncoeffs(), 0.5f);
					t2 = new Table(); PVA::build(*t2, s2, PAD_GARBAGE); ep2 = new EvalPaths(*t2);
					prev = c; curmap = map;
				}
				shared[0] = i;   // the case being executed
				alarm(10);
				double x = lattice_to_double(map, c.x, (int)(c.t.back() / 4));
				exercise(*tb, *ep, &x, 1);
				double xx[2] = {x, 2.5}; exercise(*t2, *ep2, xx, 2);
				double xy[2] = {x, std::numeric_limits<double>::quiet_NaN()}; exercise(*t2, *ep2, xy, 2);
				shared[1] += 3;
			}
			shared[0] = (long)lines.size();
			return "done";
		}, 3600, &detail);
		if (v == "ok") break;
		crashes++;
		CCase c; parse(lines[shared[0]], c);
		JW w; w.s("kind", "unsafe").s("obs", v).i("n", c.n).ia("t", c.t).i("x", c.x).i("map", shared[0] % NMAPS).s("detail", detail.substr(0, 1200)); w.emit();
		shared[0] += 1;
	}
	// tables of 3..9 dimensions: every entry point at points inside, in the margins, outside and at NaN; the gradient of a table
	// with more dimensions than the SIMD layout has lanes for (ndim + 1 > PHOTOSPLINE_MAXDIM) must be refused by exception
	for (int D = 3; D <= 9; D++) {
		std::string detail;
		std::string v = in_child([&]() -> std::string {
			alarm(30);
			Rng rng(seed + D); TableSpec s; s.ndim = D;
			for (int d = 0; d < D; d++) { uint32_t o = (uint32_t)((d + D) % 3); s.order.push_back(o); std::vector<double> k; for (uint32_t j = 0; j < 2 * o + 2 + (d == 0 ? 1 : 0); j++) k.push_back(j + 0.5 * (j % 2)); s.knots.push_back(k); }
			s.coeffs.resize(s.ncoeffs()); for (auto& c : s.coeffs) c = (float)rng.range(-1, 1);
			Table t; PVA::build(t, s, PAD_GARBAGE); EvalPaths ep(t); std::string bad;
			for (int rep = 0; rep < 6; rep++) {
				std::vector<double> x(D); std::vector<int> c(D, 0); std::vector<double> out(D + 2, 0);
				for (int d = 0; d < D; d++) { double lo = s.knots[d].front(), hi = s.knots[d].back(); x[d] = rep == 0 ? 0.5 * (lo + hi) : (rep == 1 ? hi : lo + (hi - lo) * rng.unit()); }
				if (rep == 4) x[D - 1] = std::numeric_limits<double>::quiet_NaN(); if (rep == 5) x[0] = 1e300;
				volatile double sink = 0;
				for (int p = 0; p < EvalPaths::NCALL; p++) sink = sink + ep.call(p, x.data());
				for (int p = 0; p < EvalPaths::NSC; p++) {
					if (!ep.sc(p, x.data(), c.data())) continue;
					for (int q = 0; q < EvalPaths::NVAL; q++) { sink = sink + ep.val(q, x.data(), c.data(), 0); sink = sink + ep.val(q, x.data(), c.data(), (1 << D) - 1); sink = sink + ep.val(q, x.data(), c.data(), 1 << (D - 1)); }
					for (int q = 0; q < EvalPaths::NGRAD; q++) {
						bool threw = false; try { ep.grad(q, x.data(), c.data(), out.data()); } catch (std::runtime_error&) { threw = true; }
						if (threw != (D + 1 > PHOTOSPLINE_MAXDIM) && bad.empty()) bad = std::string(threw ? "gradient-refused-for-supported-dimension-count " : "gradient-not-refused ") + EvalPaths::gradname(q);
					}
					std::vector<unsigned> dv(D, 0); dv[D - 1] = 2; dv[0] = 1;
					for (int q = 0; q < EvalPaths::NDER; q++) sink = sink + ep.der(q, x.data(), c.data(), dv.data());
				}
				shared[1] += 1;
			}
			return bad.empty() ? "fine" : bad;
		}, 300, &detail);
		bool fine = v == "ok" && detail.compare(0, 4, "fine") == 0;
		if (!fine) { crashes++; JW w; w.s("kind", "unsafe").s("obs", v == "ok" ? detail.substr(0, detail.find('\n')) : v).i("n", -D).ia("t", std::vector<long>()).i("x", 0).i("map", 0).s("detail", detail.substr(0, 1200)); w.emit(); }
	}
	JW w; w.s("kind", "summary").i("cases", (long)lines.size()).i("evaluations", shared[1]).i("mismatches", crashes); w.emit();
	return 0;
}

// ------------------------------------------------------------------------------------------------
// random executions of the real lookup, projected onto the lattice for trace validation
static double rand_double(Rng& rng) {
	switch (rng.below(8)) {
		case 0: { uint64_t u = rng.next(); double d; memcpy(&d, &u, 8); return d; }            // arbitrary bit pattern (may be NaN/inf)
		case 1: return std::ldexp(rng.range(-1, 1), (int)rng.below(600) - 300);
		case 2: return rng.range(-10, 10);
		case 3: return (double)((long)rng.below(21) - 10);
		case 4: return rng.below(2) ? INFINITY : -INFINITY;
		case 5: return std::numeric_limits<double>::denorm_min() * (double)rng.below(100);
		default: return rng.range(-1000, 1000);
	}
}
static int random_mode(long count, uint64_t seed) {
	Rng rng(seed);
	for (long it = 0; it < count; it++) {
		int n = (int)rng.below(6);
		int nk = 2 * n + 2 + (int)rng.below(6);
		std::vector<double> k;
		while ((int)k.size() < nk) {
			double d = rand_double(rng);
			if (!std::isfinite(d)) continue;
			k.push_back(d);
			while (rng.below(4) == 0 && (int)k.size() < nk) k.push_back(d);   // repeated knots
		}
		std::sort(k.begin(), k.end());
		if (k.front() == k.back()) continue;
		std::vector<double> dist; std::vector<long> lat;
		for (double d : k) { if (dist.empty() || d != dist.back()) dist.push_back(d); lat.push_back(4 * ((long)dist.size() - 1)); }
		TableSpec s; s.ndim = 1; s.order = {(uint32_t)n}; s.knots = {k}; s.coeffs.assign(s.ncoeffs(), 1.0f);
		Table tb; PVA::build(tb, s, PAD_GARBAGE); EvalPaths ep(tb);
		for (int q = 0; q < 12; q++) {
			double x;
			switch (rng.below(5)) {
				case 0: x = k[rng.below(k.size())]; break;
				case 1: x = std::nextafter(k[rng.below(k.size())], rng.below(2) ? INFINITY : -INFINITY); break;
				case 2: { size_t i = rng.below(k.size() - 1); x = k[i] / 2 + k[i + 1] / 2; break; }
				default: x = rand_double(rng);
			}
			long px;
			if (std::isnan(x)) px = XNAN; else if (x == INFINITY) px = PINF; else if (x == -INFINITY) px = NINF;
			else if (x < dist.front()) px = -2; else if (x > dist.back()) px = 4 * ((long)dist.size() - 1) + 2;
			else { size_t m = std::upper_bound(dist.begin(), dist.end(), x) - dist.begin() - 1; px = dist[m] == x ? 4 * (long)m : 4 * (long)m + 2; }
			int c = -1; int path = (int)rng.below(EvalPaths::NSC);
			alarm(20);
			bool ok = ep.sc(path, &x, &c);
			if (ok) exercise(tb, ep, &x, 1);
			JW w; w.i("n", n).ia("t", lat).i("x", px).b("ok", ok).i("c", ok ? c : -1).s("path", EvalPaths::scname(path)).s("xbits", bits64(x)); w.emit();
		}
	}
	return 0;
}

int main(int argc, char** argv) {
	if (argc < 4) { fprintf(stderr, "usage\n"); return 2; }
	std::string mode = argv[1];
	if (mode == "replay") return replay(argv[2], strtoull(argv[3], 0, 10));
	if (mode == "safety") return safety(argv[2], strtoull(argv[3], 0, 10));
	if (mode == "random") return random_mode(atol(argv[2]), strtoull(argv[3], 0, 10));
	return 2;
}
