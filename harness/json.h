// minimal JSON value + parser + writer for the conformance drivers (ndjson in, ndjson out)
#ifndef VERIF_JSON_H
#define VERIF_JSON_H
#include <string>
#include <vector>
#include <map>
#include <cstdlib>
#include <cstring>
#include <cstdio>
#include <cmath>
#include <stdexcept>
#include <sstream>
#include <cstdint>

struct JV {
	enum T { NUL, BOOL, NUM, STR, ARR, OBJ } t = NUL;
	bool b = false;
	double d = 0;
	long long i = 0;      // exact integer value when the literal was integral
	bool isint = false;
	std::string s;
	std::vector<JV> a;
	std::vector<std::pair<std::string, JV>> o;

	bool has(const char* k) const { for (auto& p : o) if (p.first == k) return true; return false; }
	const JV& operator[](const char* k) const {
		for (auto& p : o) if (p.first == k) return p.second;
		throw std::runtime_error(std::string("json: missing key ") + k);
	}
	const JV& operator[](size_t k) const { return a.at(k); }
	const JV& operator[](int k) const { return a.at((size_t)k); }
	size_t size() const { return t == ARR ? a.size() : o.size(); }
	double num() const { if (t != NUM) throw std::runtime_error("json: not a number"); return d; }
	long long integer() const { if (t != NUM) throw std::runtime_error("json: not a number"); return isint ? i : (long long)d; }
	const std::string& str() const { if (t != STR) throw std::runtime_error("json: not a string"); return s; }
	std::vector<double> nums() const { std::vector<double> r; for (auto& e : a) r.push_back(e.num()); return r; }
	std::vector<long long> ints() const { std::vector<long long> r; for (auto& e : a) r.push_back(e.integer()); return r; }
};

struct JParser {
	const char* p; const char* e;
	explicit JParser(const std::string& s) : p(s.data()), e(s.data() + s.size()) {}
	void ws() { while (p < e && (*p == ' ' || *p == '\t' || *p == '\n' || *p == '\r')) p++; }
	JV parse() { ws(); JV v = val(); ws(); return v; }
	JV val() {
		ws();
		if (p >= e) throw std::runtime_error("json: eof");
		JV v;
		if (*p == '{') {
			v.t = JV::OBJ; p++; ws();
			if (*p == '}') { p++; return v; }
			while (true) {
				ws(); JV k = val(); ws();
				if (*p != ':') throw std::runtime_error("json: expected :");
				p++;
				JV x = val();
				v.o.push_back({k.s, x}); ws();
				if (*p == ',') { p++; continue; }
				if (*p == '}') { p++; break; }
				throw std::runtime_error("json: bad object");
			}
		} else if (*p == '[') {
			v.t = JV::ARR; p++; ws();
			if (*p == ']') { p++; return v; }
			while (true) {
				v.a.push_back(val()); ws();
				if (*p == ',') { p++; continue; }
				if (*p == ']') { p++; break; }
				throw std::runtime_error("json: bad array");
			}
		} else if (*p == '"') {
			v.t = JV::STR; p++;
			while (p < e && *p != '"') {
				if (*p == '\\') {
					p++;
					switch (*p) {
						case 'n': v.s += '\n'; break; case 't': v.s += '\t'; break;
						case 'r': v.s += '\r'; break; case 'b': v.s += '\b'; break; case 'f': v.s += '\f'; break;
						case 'u': { unsigned c = strtoul(std::string(p + 1, 4).c_str(), 0, 16); v.s += (char)c; p += 4; break; }
						default: v.s += *p;
					}
					p++;
				} else v.s += *p++;
			}
			p++;
		} else if (!strncmp(p, "true", 4)) { v.t = JV::BOOL; v.b = true; p += 4; }
		else if (!strncmp(p, "false", 5)) { v.t = JV::BOOL; v.b = false; p += 5; }
		else if (!strncmp(p, "null", 4)) { v.t = JV::NUL; p += 4; }
		else {
			char* end; v.t = JV::NUM;
			v.d = strtod(p, &end);
			if (end == p) throw std::runtime_error(std::string("json: bad token at ") + std::string(p, std::min<size_t>(20, e - p)));
			v.isint = true;
			for (const char* q = p; q < end; q++) if (*q == '.' || *q == 'e' || *q == 'E') v.isint = false;
			if (v.isint) v.i = strtoll(p, 0, 10);
			p = end;
		}
		return v;
	}
};
inline JV jparse(const std::string& s) { return JParser(s).parse(); }

// writer: builds one JSON object per line
struct JW {
	std::ostringstream os; bool first = true;
	JW() { os << "{"; }
	void key(const char* k) { if (!first) os << ","; first = false; os << "\"" << k << "\":"; }
	static std::string esc(const std::string& s) {
		std::string r;
		for (unsigned char c : s) {
			if (c == '"') r += "\\\""; else if (c == '\\') r += "\\\\";
			else if (c < 0x20 || c >= 0x7f) { char b[8]; snprintf(b, 8, "\\u%04x", c); r += b; }
			else r += (char)c;
		}
		return r;
	}
	JW& s(const char* k, const std::string& v) { key(k); os << "\"" << esc(v) << "\""; return *this; }
	JW& i(const char* k, long long v) { key(k); os << v; return *this; }
	JW& b(const char* k, bool v) { key(k); os << (v ? "true" : "false"); return *this; }
	JW& d(const char* k, double v) {
		key(k);
		if (std::isnan(v)) os << "\"nan\""; else if (std::isinf(v)) os << (v > 0 ? "\"inf\"" : "\"-inf\"");
		else { char b[40]; snprintf(b, 40, "%.17g", v); os << b; }
		return *this;
	}
	JW& raw(const char* k, const std::string& v) { key(k); os << v; return *this; }
	template <class V> JW& ia(const char* k, const V& v) {
		key(k); os << "["; bool f = true; for (auto x : v) { if (!f) os << ","; f = false; os << (long long)x; } os << "]"; return *this;
	}
	template <class V> JW& da(const char* k, const V& v) {
		key(k); os << "["; bool f = true;
		for (double x : v) {
			if (!f) os << ","; f = false;
			if (std::isnan(x)) os << "\"nan\""; else if (std::isinf(x)) os << (x > 0 ? "\"inf\"" : "\"-inf\"");
			else { char b[40]; snprintf(b, 40, "%.17g", x); os << b; }
		}
		os << "]"; return *this;
	}
	std::string str() { return os.str() + "}"; }
	void emit(FILE* f = stdout) { std::string r = str(); fputs(r.c_str(), f); fputc('\n', f); }
};

inline std::string bits64(double v) { uint64_t u; memcpy(&u, &v, 8); char b[24]; snprintf(b, 24, "%016llx", (unsigned long long)u); return b; }
inline std::string bits32(float v) { uint32_t u; memcpy(&u, &v, 4); char b[12]; snprintf(b, 12, "%08x", u); return b; }

#endif
