// beyond-list: the stacking constructor against spec/Stack.tla.  For every case emitted by MC_Stack the tables are built,
// stacked (in a forked ASan child), and the result is compared attribute by attribute with the specification's table and
// point by point with its exact values.
//   stack_driver <cases.ndjson> <out.ndjson>
#include "evalapi.h"
#include <fstream>

static TableSpec spec_of(const JV& t) {
	TableSpec s; s.ndim = (uint32_t)t["ndim"].integer();
	for (auto& o : t["order"].a) s.order.push_back((uint32_t)o.integer());
	for (auto& k : t["knots"].a) { std::vector<double> v; for (auto& x : k.a) v.push_back((double)x.integer()); s.knots.push_back(v); }
	for (auto& e : t["extents"].a) { s.extents.push_back((double)e.a[0].integer()); s.extents.push_back((double)e.a[1].integer()); }
	for (auto& c : t["coef"].a) s.coeffs.push_back((float)c.integer());
	return s;
}
static std::string diff(const Table& t, const JV& r) {
	std::ostringstream o; uint32_t n = t.get_ndim();
	if (n != (uint32_t)r["ndim"].integer()) { o << "ndim " << n; return o.str(); }
	for (uint32_t d = 0; d < n; d++) {
		if (t.get_order(d) != (uint32_t)r["order"].a[d].integer()) o << "order[" << d << "]=" << t.get_order(d) << " ";
		if (t.get_nknots(d) != r["knots"].a[d].a.size()) { o << "nknots[" << d << "]=" << t.get_nknots(d) << " "; continue; }
		for (uint64_t j = 0; j < t.get_nknots(d); j++) if (t.get_knot(d, j) != (double)r["knots"].a[d].a[j].integer()) { o << "knot[" << d << "][" << j << "]=" << t.get_knot(d, j) << " "; break; }
		if (t.get_ncoeffs(d) != (uint64_t)r["naxes"].a[d].integer()) o << "naxes[" << d << "]=" << t.get_ncoeffs(d) << " ";
		if (t.get_stride(d) != (uint64_t)r["strides"].a[d].integer()) o << "stride[" << d << "]=" << t.get_stride(d) << " ";
		if (!PVA::has_extents(t)) o << "no-extents ";
		else if (t.lower_extent(d) != (double)r["extents"].a[d].a[0].integer() || t.upper_extent(d) != (double)r["extents"].a[d].a[1].integer()) o << "extent[" << d << "]=" << t.lower_extent(d) << ".." << t.upper_extent(d) << " ";
	}
	if (PVA::has_periods(t)) o << "has-periods ";
	if (o.str().empty()) {
		if (t.get_ncoeffs() != r["coef"].a.size()) o << "ncoeffs=" << t.get_ncoeffs() << " ";
		else for (uint64_t i = 0; i < t.get_ncoeffs(); i++) if (t.get_coefficients()[i] != (float)r["coef"].a[i].integer()) { o << "coef[" << i << "]=" << t.get_coefficients()[i] << " "; break; }
	}
	return o.str();
}

int main(int argc, char** argv) {
	if (argc < 3) return 2;
	std::ifstream f(argv[1]); FILE* out = fopen(argv[2], "w"); std::string line; long n = 0;
	while (std::getline(f, line)) {
		if (line.empty()) continue; JV c = jparse(line); std::string detail;
		std::string v = in_child([&]() -> std::string {
			std::vector<std::unique_ptr<Table>> own; std::vector<Table*> src; std::vector<double> coords;
			for (auto& t : c["tables"].a) { own.emplace_back(new Table()); PVA::build(*own.back(), spec_of(t), PAD_ZERO); src.push_back(own.back().get()); }
			for (auto& x : c["coords"].a) coords.push_back((double)x.integer());
			int so = (int)c["so"].integer(); std::ostringstream o;
			bool threw = false; std::unique_ptr<Table> s;
			try { s.reset(new Table(src, coords, so)); } catch (std::exception& e) { threw = true; }
			if (c["kind"].str() == "mismatch") { o << "\"refused\":" << (threw ? "true" : "false"); return o.str(); }
			if (threw) { o << "\"refused\":true"; return o.str(); }
			std::string d = diff(*s, c["result"]); long bad = 0, pts = 0; std::string ex;
			for (auto& p : c["values"].a) {
				std::vector<double> x; for (auto& r : p["x"].a) x.push_back((double)r.a[0].integer() / (double)r.a[1].integer());
				double want = (double)p["v"].a[0].integer() / (double)p["v"].a[1].integer();
				std::vector<int> cen(x.size()); pts++;
				if (!s->searchcenters(x.data(), cen.data())) { bad++; if (ex.empty()) ex = "lookup failed"; continue; }
				double got = s->ndsplineeval(x.data(), cen.data(), 0);
				if (!(std::fabs(got - want) <= 1e-4 * (1 + std::fabs(want)))) { bad++; if (ex.empty()) { std::ostringstream e; e << "got " << got << " want " << want; ex = e.str(); } }
			}
			// the sources must be untouched and the stacked table usable: write it, read it back, compare
			auto buf = s->write_fits_mem(); Table back; bool rt = back.read_fits_mem(buf.first, buf.second) && back == *s; free(buf.first);
			o << "\"refused\":false,\"diff\":\"" << JW::esc(d) << "\",\"points\":" << pts << ",\"bad\":" << bad << ",\"example\":\"" << JW::esc(ex) << "\",\"roundtrip\":" << (rt ? "true" : "false");
			return o.str();
		}, 120, &detail);
		std::string body = v == "ok" ? detail.substr(0, detail.find("\n[stderr]")) : "\"crash\":\"" + JW::esc(v) + "\",\"detail\":\"" + JW::esc(detail.substr(0, 900)) + "\"";
		fprintf(out, "{\"case\":%ld,\"kind\":\"%s\",\"so\":%ld,%s}\n", n, c["kind"].str().c_str(), (long)c["so"].integer(), body.c_str());
		n++;
	}
	fclose(out); printf("{\"cases\":%ld}\n", n); return 0;
}
