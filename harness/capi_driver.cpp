// C18: call sequences on the C interface with a C++ twin per handle; every call is logged with the C return value,
// whether the twin operation succeeded, and whether values / resulting tables agree.  One forked child per sequence,
// LeakSanitizer at child exit decides "releases every resource exactly once".
//   capi_driver <sequences.ndjson> <out.ndjson> <seed>
#include "evalapi.h"
#include <fstream>
#include <sys/mman.h>

static std::string g_dir; static char* g_marker;
static std::map<int, std::string> g_files; static std::map<int, bool> g_valid; static std::map<int, std::vector<char>> g_bytes;
static std::vector<char> slurp(const std::string& p) { std::ifstream f(p, std::ios::binary); return std::vector<char>((std::istreambuf_iterator<char>(f)), std::istreambuf_iterator<char>()); }

static void make_files() {
	Rng rng(11);
	auto mk = [&](int id, TableSpec s) {
		s.coeffs.resize(s.ncoeffs()); for (auto& c : s.coeffs) c = (float)rng.range(-2, 2);
		Table t; PVA::build(t, s, PAD_ZERO); t.write_key("INTKEY", 17); t.write_key("DBLKEY", 2.5); t.write_key("STRKEY", "abc");
		g_files[id] = g_dir + "/v" + std::to_string(id) + ".fits"; g_valid[id] = true; t.write_fits(g_files[id]); g_bytes[id] = slurp(g_files[id]);
	};
	TableSpec a; a.ndim = 1; a.order = {2}; a.knots = {{0, 1, 2, 3, 4, 5, 6, 7, 8, 9}}; mk(1, a);
	TableSpec b; b.ndim = 3; b.order = {1, 2, 0}; b.knots = {{0, 1, 2, 4, 5}, {-3, -2, -1, 0, 1, 2, 3}, {0, 1, 3}}; b.periods = {0, 0, 7}; mk(2, b);
	g_files[11] = g_dir + "/missing.fits"; g_valid[11] = false;
	g_files[13] = g_dir + "/noknots.fits"; g_valid[13] = false;
	{ std::ofstream o(g_files[13], std::ios::binary); o.write(g_bytes[2].data(), g_bytes[2].size()); }
	{ fitsfile* f; int st = 0; fits_open_file(&f, g_files[13].c_str(), READWRITE, &st); fits_movnam_hdu(f, IMAGE_HDU, (char*)"KNOTS1", 0, &st); fits_delete_hdu(f, nullptr, &st); fits_close_file(f, &st); }
	g_bytes[13] = slurp(g_files[13]);
	g_files[15] = g_dir + "/text.txt"; g_valid[15] = false; { std::ofstream o(g_files[15]); o << "not a fits file\n"; } g_bytes[15] = slurp(g_files[15]);
}

static bool same_table(const Table* a, const Table* b) {
	if (!a || !b) return a == b;
	if (a->get_ndim() != b->get_ndim()) return false;
	if (a->get_ndim() == 0) return true;
	if (a->get_ncoeffs() != b->get_ncoeffs()) return false;
	for (uint32_t d = 0; d < a->get_ndim(); d++) {
		if (a->get_order(d) != b->get_order(d) || a->get_nknots(d) != b->get_nknots(d) || a->get_ncoeffs(d) != b->get_ncoeffs(d)) return false;
		if (memcmp(a->get_knots(d), b->get_knots(d), 8 * a->get_nknots(d))) return false;
	}
	if (memcmp(a->get_coefficients(), b->get_coefficients(), 4 * a->get_ncoeffs())) return false;   // bitwise: NaN equals NaN
	for (uint32_t d = 0; d < a->get_ndim(); d++) if (a->lower_extent(d) != b->lower_extent(d) || a->upper_extent(d) != b->upper_extent(d) || a->get_stride(d) != b->get_stride(d)) return false;
	if (a->get_naux_values() != b->get_naux_values()) return false;
	for (size_t i = 0; i < a->get_naux_values(); i++) { if (strcmp(a->get_aux_key(i), b->get_aux_key(i))) return false; if (strcmp(a->get_aux_value(a->get_aux_key(i)), b->get_aux_value(b->get_aux_key(i)))) return false; }
	return true;
}
static bool biteq(double a, double b) { return memcmp(&a, &b, 8) == 0; }

struct H { ::splinetable c; Table* tw; H() : tw(nullptr) { c.data = nullptr; } };
struct Runner {
	FILE* out; std::map<int, H> hs; Rng rng; std::string tag;
	Runner(FILE* o, uint64_t s) : out(o), rng(s) {}
	Table* ctab(int h) { return static_cast<Table*>(hs[h].c.data); }
	void log(const char* f, int h, long c_ret, bool twin_ok, bool same, const std::string& note = "") {
		JW w; w.s("f", f).i("h", h).i("c_ret", c_ret).b("twin_ok", twin_ok).b("same", same).s("tag", tag).s("note", note); w.emit(out); fflush(out);
	}
	template <class F> bool ok(F f) { try { f(); return true; } catch (std::exception&) { return false; } catch (...) { return false; } }
	void mark(const std::string& s) { strncpy(g_marker, s.c_str(), 400); }
	void step(const JV& op) {
		const std::string& f = op["f"].str(); int h = (int)op["h"].integer();
		// twin operations are wrapped in ok(); anything that arrives here was thrown through an extern "C" function
		try { step2(op); } catch (...) { log(f.c_str(), h, -99, false, false, "ESCAPED: an exception propagated out of the C wrapper"); throw; }
	}
	void step2(const JV& op) {
		const std::string& f = op["f"].str(); int h = (int)op["h"].integer(); H& x = hs[h]; long a = op.has("arg") ? op["arg"].integer() : 0;
		mark(f + " arg=" + std::to_string(a) + (x.c.data ? " live" : " null"));
		if (f == "init") { if (x.c.data) return; int r = splinetable_init(&x.c); bool t = ok([&]() { x.tw = new Table(); }); log("init", h, r, t, same_table(ctab(h), x.tw)); }
		else if (f == "free") { splinetable_free(&x.c); delete x.tw; x.tw = nullptr; log("free", h, -1, true, x.c.data == nullptr); }
		else if (f == "read") {
			int file = (int)op["file"].integer(); int r = readsplinefitstable(g_files[file].c_str(), &x.c);
			Table* n = nullptr; bool t = ok([&]() { n = new Table(g_files[file]); });
			delete x.tw; x.tw = t ? n : nullptr;          // the C function frees the old table first and leaves NULL on failure
			log("read", h, r, t, same_table(ctab(h), x.tw), "file " + std::to_string(file));
		} else if (f == "read_mem") {
			int file = (int)op["file"].integer(); if (!g_bytes.count(file)) return;
			if (!x.c.data) { delete x.tw; x.tw = new Table(); }      // a null handle: the C function creates the table itself
			std::vector<char> b1 = g_bytes[file], b2 = g_bytes[file]; splinetable_buffer buf; buf.data = b1.data(); buf.size = b1.size();
			int r = readsplinefitstable_mem(&buf, &x.c); bool t = ok([&]() { x.tw->read_fits_mem(b2.data(), b2.size()); });
			log("read_mem", h, r, t, same_table(ctab(h), x.tw), "file " + std::to_string(file));
		} else if (!x.c.data || !x.tw) return;
		else if (f == "write") {
			std::string p1 = g_dir + "/c_" + std::to_string(getpid()) + ".fits", p2 = g_dir + "/t_" + std::to_string(getpid()) + ".fits";
			if (a == 3) { p1 = g_dir + "/nodir/x.fits"; p2 = p1; }
			int r = writesplinefitstable(p1.c_str(), &x.c); bool t = ok([&]() { x.tw->write_fits(p2); });
			bool same = true; if (r == 0 && t) same = slurp(p1) == slurp(p2);
			log("write", h, r, t, same);
		} else if (f == "write_mem") {
			splinetable_buffer buf; buf.data = nullptr; buf.size = 0; int r = writesplinefitstable_mem(&buf, &x.c);
			std::pair<void*, size_t> tb(nullptr, 0); bool t = ok([&]() { tb = x.tw->write_fits_mem(); });
			bool same = (r == 0) == t && (!t || (buf.size == tb.second && !memcmp(buf.data, tb.first, tb.second)));
			free(buf.data); free(tb.first); log("write_mem", h, r, t, same);
		} else if (f == "get_key") {
			static const char* K[] = {"INTKEY", "STRKEY", "NOSUCHKEY", "DBLKEY"}; const char* v = splinetable_get_key(&x.c, K[a]); const char* w = x.tw->get_aux_value(K[a]);
			log("get_key", h, -1, true, (!v && !w) || (v && w && !strcmp(v, w)), K[a]);
		} else if (f == "read_key") {
			// every key is read as both types (the text of a double read as int, a string read as a number, a missing key)
			static const char* K[] = {"INTKEY", "STRKEY", "NOSUCHKEY", "DBLKEY", "NEWKEY"};
			for (int kk = 0; kk < 5; kk++) {
				if (kk != (int)a && kk != 4 && kk != (int)((a + 1) % 4)) continue;
				int iv = -1, tv = -1; double dv = -1, td = -1;
				int r = splinetable_read_key(&x.c, SPLINETABLE_INT, K[kk], &iv); bool t = x.tw->read_key(K[kk], tv); log("read_key", h, r, t, !t || iv == tv, std::string(K[kk]) + " as int");
				r = splinetable_read_key(&x.c, SPLINETABLE_DOUBLE, K[kk], &dv); t = x.tw->read_key(K[kk], td); log("read_key", h, r, t, !t || biteq(dv, td), std::string(K[kk]) + " as double");
			}
		} else if (f == "write_key") {
			static const char* K[] = {"NEWKEY", "ORDER9", "lower", "INTKEY"}; static const double D[] = {0.5, 2.5e6, -3.9e-5, 1e10, 7.0};
			int v = 5 + (int)a; double d = D[rng.below(5)]; int r; bool t;
			if (rng.below(2) == 0) { r = splinetable_write_key(&x.c, SPLINETABLE_INT, K[a], &v); t = ok([&]() { x.tw->write_key(K[a], v); }); }
			else { r = splinetable_write_key(&x.c, SPLINETABLE_DOUBLE, K[a], &d); t = ok([&]() { x.tw->write_key(K[a], d); }); }
			log("write_key", h, r, t, same_table(ctab(h), x.tw), K[a]);
		} else if (f == "accessors") {
			bool same = splinetable_ndim(&x.c) == x.tw->get_ndim(); uint32_t n = x.tw->get_ndim();
			if (n) {
				same = same && splinetable_total_ncoeffs(&x.c) == x.tw->get_ncoeffs() && !memcmp(splinetable_coefficients(&x.c), x.tw->get_coefficients(), 4 * x.tw->get_ncoeffs());
				for (uint32_t d = 0; d < n; d++) same = same && splinetable_order(&x.c, d) == x.tw->get_order(d) && splinetable_nknots(&x.c, d) == x.tw->get_nknots(d) && splinetable_ncoeffs(&x.c, d) == x.tw->get_ncoeffs(d)
					&& splinetable_stride(&x.c, d) == x.tw->get_stride(d) && biteq(splinetable_lower_extent(&x.c, d), x.tw->lower_extent(d)) && biteq(splinetable_upper_extent(&x.c, d), x.tw->upper_extent(d))
					&& biteq(splinetable_knot(&x.c, d, 1), x.tw->get_knot(d, 1)) && !memcmp(splinetable_knots(&x.c, d), x.tw->get_knots(d), 8 * x.tw->get_nknots(d))
					&& (!PVA::has_periods(*x.tw) || biteq(splinetable_period(&x.c, d), x.tw->get_period(d)));
			}
			log("accessors", h, -1, true, same);
		} else if (f == "eval") {
			uint32_t n = x.tw->get_ndim(); if (!n) return; std::vector<double> p(n); bool same = true;
			for (int rep = 0; rep < 4; rep++) {
				for (uint32_t d = 0; d < n; d++) { double lo = x.tw->get_knot(d, 0), hi = x.tw->get_knot(d, x.tw->get_nknots(d) - 1); p[d] = lo + (hi - lo) * (rep == 3 ? 1.5 : rng.unit()); }
				std::vector<int> c1(n, -5), c2(n, -5); int r1 = tablesearchcenters(&x.c, p.data(), c1.data()); bool r2 = x.tw->searchcenters(p.data(), c2.data());
				same = same && ((r1 != 0) == r2); if (!r2) continue; same = same && c1 == c2;
				same = same && biteq(::ndsplineeval(&x.c, p.data(), c1.data(), 0), x.tw->ndsplineeval(p.data(), c2.data(), 0)) && biteq(::ndsplineeval(&x.c, p.data(), c1.data(), 1), x.tw->ndsplineeval(p.data(), c2.data(), 1));
				std::vector<double> g1(n + 1), g2(n + 1); ::ndsplineeval_gradient(&x.c, p.data(), c1.data(), g1.data()); x.tw->ndsplineeval_gradient(p.data(), c2.data(), g2.data());
				same = same && !memcmp(g1.data(), g2.data(), 8 * (n + 1));
				std::vector<unsigned> dv(n, 1); dv[0] = 2; same = same && biteq(::ndsplineeval_deriv(&x.c, p.data(), c1.data(), dv.data()), x.tw->ndsplineeval_deriv(p.data(), c2.data(), dv.data()));
			}
			log("eval", h, -1, true, same);
		} else if (f == "grideval") {
			uint32_t n = x.tw->get_ndim(); if (!n) return; std::vector<std::vector<double>> co(n); std::vector<const double*> cp(n); std::vector<uint32_t> nc(n);
			for (uint32_t d = 0; d < n; d++) { for (int j = 0; j < 3 + (int)a; j++) co[d].push_back(x.tw->get_knot(d, 0) + 0.37 * (j + 1)); cp[d] = co[d].data(); nc[d] = (uint32_t)co[d].size(); }
			if (a == 3) nc[0] = nc[0];   // same request, just more points
			::ndsparse* res = nullptr; int r = splinetable_grideval(&x.c, cp.data(), nc.data(), &res);
			std::unique_ptr<photospline::ndsparse> tr; bool t = ok([&]() { tr = x.tw->grideval(co); });
			bool same = (r == 0) == t;
			if (r == 0 && t) { same = res->rows == tr->rows && res->ndim == tr->ndim && !memcmp(res->x, tr->x, 8 * tr->rows); for (size_t d = 0; same && d < tr->ndim; d++) same = res->ranges[d] == tr->ranges[d] && !memcmp(res->i[d], tr->i[d], sizeof(unsigned) * tr->rows); }
			if (res) ndsparse_destroy(res);
			log("grideval", h, r, t, same);
		} else if (f == "permute") {
			uint32_t n = x.tw->get_ndim(); if (!n) return; std::vector<size_t> p(n); for (uint32_t i = 0; i < n; i++) p[i] = (i + 1) % n;
			if (a >= 2 && rng.below(2)) p[0] = a == 2 ? n + 2 : p[n - 1];        // out of range / duplicate (n > 1)
			else if (a >= 2) {   // the same two faults in an argument that is in ascending order
				for (uint32_t i = 0; i < n; i++) p[i] = i;
				if (a == 2) p[n - 1] = rng.below(2) ? n : (size_t)-1; else if (n > 1) p[n - 1] = p[n - 2]; else p[0] = 1;
			}
			std::vector<size_t> q = p; int r = splinetable_permute(&x.c, q.data()); bool t = ok([&]() { x.tw->permuteDimensions(p); });
			log("permute", h, r, t, same_table(ctab(h), x.tw));
		} else if (f == "convolve") {
			uint32_t n = x.tw->get_ndim(); if (!n) return; double k[3] = {-0.25, 0.1, 0.4}; int dim = (int)(a % n); size_t nk = 2 + a % 2;
			if (a == 2) nk = 1;                                       // a one-knot kernel: a translation of the table
			if (a == 3) nk = (size_t)1 << 60;                        // a request that cannot be served: must come back as a failure
			bool t = ok([&]() { x.tw->convolve(dim, k, nk); }); int r = splinetable_convolve(&x.c, dim, k, nk);
			log("convolve", h, r, t, same_table(ctab(h), x.tw));
		} else if (f == "glamfit") {
			bool good = a != 0; size_t np = 10; ::ndsparse data; ndsparse_allocate(&data, np, 1); std::vector<double> w(np, 1.0), cx(np), kn; for (int k = -2; k <= 11; k++) kn.push_back(k);
			for (size_t i = 0; i < np; i++) { data.x[i] = std::cos(0.5 * i); data.i[0][i] = (unsigned)i; cx[i] = i; } data.ranges[0] = (unsigned)np;
			if (!good) std::swap(kn[2], kn[6]);
			const double* coords[1] = {cx.data()}; const double* knots[1] = {kn.data()}; uint64_t nkn[1] = {kn.size()}; uint32_t ord[1] = {2}, pen[1] = {2}; double sm[1] = {1e-2};
			static const uint32_t nodim[] = {1, 2, 7, 0x80000000u, 0xfffffffeu};
			uint32_t mono = a == 2 ? nodim[rng.below(5)] : a == 3 ? 0 : PHOTOSPLINE_GLAM_NO_MONODIM;
			int r = splinetable_glamfit(&x.c, &data, w.data(), coords, ord, knots, nkn, sm, pen, mono, false);
			bool t = ok([&]() { std::vector<std::vector<double>> cc{cx}, kk{kn}; std::vector<uint32_t> o{2}, p{2}; std::vector<double> s{1e-2}; x.tw->fit(data, w, cc, o, kk, s, p, mono == PHOTOSPLINE_GLAM_NO_MONODIM ? Table::no_monodim : mono, false); });
			ndsparse_free(&data);
			log("glamfit", h, r, t, same_table(ctab(h), x.tw));
		}
	}
	void finish() { for (auto& kv : hs) { splinetable_free(&kv.second.c); delete kv.second.tw; kv.second.tw = nullptr; } }
};

int main(int argc, char** argv) {
	if (argc < 4) return 2;
	char tmpl[] = "/dev/shm/verif_capi_XXXXXX"; g_dir = mkdtemp(tmpl);
	g_marker = (char*)mmap(nullptr, 4096, PROT_READ | PROT_WRITE, MAP_SHARED | MAP_ANONYMOUS, -1, 0);
	make_files();
	std::ifstream f(argv[1]); std::string line; long n = 0; uint64_t seed = strtoull(argv[3], 0, 10);
	{ FILE* o = fopen(argv[2], "w"); fclose(o); }
	while (std::getline(f, line)) {
		if (line.empty()) continue; g_marker[0] = 0; std::string detail;
		std::string v = in_child([&]() -> std::string {
			std::set_terminate([]() { fprintf(stderr, "TERMINATE: exception escaped a C wrapper\n"); _exit(77); });
			FILE* out = fopen(argv[2], "a"); JV h = jparse(line); Runner r(out, seed + n); r.tag = "sequence " + std::to_string(n);
			for (auto& op : h.a) r.step(op);
			r.finish(); fclose(out);
			return __lsan_do_recoverable_leak_check() ? "LEAK" : "done";
		}, 300, &detail);
		if (v != "ok" || detail.find("LEAK") == 0) {
			FILE* out = fopen(argv[2], "a"); bool leak = detail.find("LeakSanitizer") != std::string::npos || v == "leak";
			JW w; w.s("f", leak ? "leak" : "crash").i("h", 0).s("obs", v).s("during", g_marker).s("tag", "sequence " + std::to_string(n)).s("detail", detail.substr(0, 1800)); w.emit(out); fclose(out);
		}
		n++;
	}
	std::string cmd = "rm -rf " + g_dir; if (system(cmd.c_str())) {}
	printf("{\"sequences\":%ld}\n", n); return 0;
}
