// C16: executes operation histories on the auxiliary key store of a real table and logs, per call, the
// observed outcome and the projected store (ids of spec/AuxStore.tla).
//   aux_driver replay <histories.ndjson> <out.ndjson>       one JSON array of ops per line (from Gen_AuxStore)
//   aux_driver random <count> <len> <seed> <out.ndjson>     own random histories
#include "evalapi.h"
#include <fstream>
#include <iostream>

static const char* KEYS[] = {nullptr, "A", "KEYEIGHT", "ALONGERKEYNAME", "HIERARCHKEYWITHAVERYLONGNAME0123456789", "ORDER7", "TYPEX",
                             "lower", "Mixedlongkeyname", "", "SP ACE", "LONGKEYWITH=SIGN", "NAXIS", "D2Y0Z19", "ORDERING_SCHEME", "PERIODICITY", "TYPE_OF_TABLE", "LOWER", "MIXEDLONGKEYNAME"};
static const int NKEYS = 18;
struct Val { char type; long i; double d; std::string s; };
static std::vector<Val> VALS;
static void init_vals() {
	VALS.resize(23);
	VALS[1] = {'i', 42, 0, "42"}; VALS[2] = {'i', -7, 0, "-7"}; VALS[3] = {'d', 0, 2.5, "2.5"}; VALS[4] = {'d', 0, 1e-30, "1e-30"};
	VALS[5] = {'s', 0, 0, ""}; VALS[6] = {'s', 0, 0, "hello world"}; VALS[7] = {'s', 0, 0, "trailing  "};
	VALS[8] = {'s', 0, 0, std::string(68, 'x')}; VALS[8].s[0] = 'B'; VALS[8].s[67] = 'E';
	VALS[9] = {'s', 0, 0, std::string(69, 'y')}; VALS[10] = {'s', 0, 0, "it's"};
	VALS[11] = {'s', 0, 0, std::string(53, 'p')}; VALS[11].s[52] = 'Q';
	VALS[12] = {'s', 0, 0, std::string(54, 'r')}; VALS[12].s[53] = 'S';
	VALS[13] = {'s', 0, 0, std::string(29, 't')}; VALS[13].s[28] = 'U';
	VALS[14] = {'s', 0, 0, std::string(30, 'v')}; VALS[14].s[29] = 'W';
	VALS[15] = {'s', 0, 0, std::string(67, 'z') + "'"};
	VALS[16] = {'i', 2147483647, 0, "2147483647"};
	VALS[17] = {'s', 0, 0, "''"}; VALS[18] = {'s', 0, 0, "a'''b"}; VALS[19] = {'s', 0, 0, "say '' twice"};
	VALS[20] = {'s', 0, 0, std::string(34, '\'')}; VALS[21] = {'s', 0, 0, std::string(35, '\'')}; VALS[22] = {'s', 0, 0, "'x' 'y"};
}
static std::string rstrip(std::string s) { while (!s.empty() && s.back() == ' ') s.pop_back(); return s; }
static int key_id(const char* k) { for (int i = 1; i <= NKEYS; i++) if (!strcmp(k, KEYS[i])) return i; return 99; }
static int val_id(const char* v) { std::string r = rstrip(v); for (size_t i = 1; i < VALS.size(); i++) if (rstrip(VALS[i].s) == r) return (int)i; return 99; }

static std::string store_json(const Table& t) {
	std::ostringstream os; os << "[";
	for (size_t i = 0; i < t.get_naux_values(); i++) {
		const char* k = t.get_aux_key(i);
		os << (i ? "," : "") << "[" << key_id(k) << "," << val_id(t.get_aux_value(k) ? PVA::auxval(t, i) : "?") << "]";
	}
	os << "]"; return os.str();
}

static Table* fresh() {
	TableSpec s; s.ndim = 2; s.order = {1, 2}; s.knots = {{0, 1, 2, 3, 4}, {-1, 0, 1, 2, 3, 4, 5}};
	s.coeffs.resize(s.ncoeffs()); for (size_t i = 0; i < s.coeffs.size(); i++) s.coeffs[i] = (float)(i * 0.5 - 1);
	Table* t = new Table(); PVA::build(*t, s, PAD_ZERO); return t;
}

struct Runner {
	Table* t; FILE* out; long nops = 0; bool use_c = false;
	Runner(FILE* o) : t(fresh()), out(o) {}
	~Runner() { delete t; }
	void write(int k, int v) {
		bool acc = false, threw = false; std::string what;
		size_t before = t->get_naux_values(); const char* old = t->get_aux_value(KEYS[k]); std::string oldv = old ? old : "";
		try {
			const Val& val = VALS[v];
			if (use_c && val.type != 's') {
				::splinetable ct; ct.data = t; int iv = (int)val.i;
				int rc = val.type == 'i' ? splinetable_write_key(&ct, SPLINETABLE_INT, KEYS[k], &iv) : splinetable_write_key(&ct, SPLINETABLE_DOUBLE, KEYS[k], &val.d);
				if (rc != 0) threw = true;
			} else if (val.type == 'i') t->write_key(KEYS[k], (int)val.i);
			else if (val.type == 'd') t->write_key(KEYS[k], val.d);
			else t->write_key(KEYS[k], val.s.c_str());
		} catch (std::exception& e) { threw = true; what = e.what(); }
		// accepted = the call did not refuse; whether it then stored the pair is judged by the specification from the store
		acc = !threw;
		(void)before; (void)oldv;
		JW w; w.s("op", "write").i("k", k).i("v", v).b("acc", acc).raw("store", store_json(*t)); w.emit(out); nops++;
	}
	void remove(int k) {
#ifdef NO_REMOVE_KEY
		JW w; w.s("op", "remove").i("k", k).b("unsupported", true).b("ret", false).raw("store", store_json(*t)); w.emit(out); nops++;
#else
		bool r = t->remove_key(KEYS[k]);
		JW w; w.s("op", "remove").i("k", k).b("ret", r).raw("store", store_json(*t)); w.emit(out); nops++;
#endif
	}
	void get(int k) {
		const char* v;
		if (use_c) { ::splinetable ct; ct.data = t; v = splinetable_get_key(&ct, KEYS[k]); } else v = t->get_aux_value(KEYS[k]);
		JW w; w.s("op", "get").i("k", k).i("res", v ? val_id(v) : 0); w.emit(out); nops++;
		int iv = -12345; bool ok = t->read_key(KEYS[k], iv);
		JW w2; w2.s("op", "readint").i("k", k).b("ok", ok).i("val", ok ? iv : 0); w2.emit(out); nops++;
		std::string sv; bool ok2 = t->read_key(KEYS[k], sv);
		JW w3; w3.s("op", "readstr").i("k", k).b("ok", ok2).i("res", ok2 ? val_id(sv.c_str()) : 0); w3.emit(out); nops++;
	}
	void roundtrip(int how) {
		Table* n = new Table();
		try {
			if (how % 2 == 0) { auto buf = t->write_fits_mem(); n->read_fits_mem(buf.first, buf.second); free(buf.first); }
			else { char path[64]; snprintf(path, 64, "/dev/shm/verif_aux_%d.fits", (int)getpid()); t->write_fits(path); n->read_fits(path); unlink(path); }
		} catch (std::exception& e) {
			JW w; w.s("op", "roundtrip").s("error", e.what()).raw("store", "[]"); w.emit(out); nops++;
			delete n; return;
		}
		delete t; t = n;
		JW w; w.s("op", "roundtrip").raw("store", store_json(*t)); w.emit(out); nops++;
	}
};

int main(int argc, char** argv) {
	if (argc < 4) return 2;
	init_vals();
	std::string mode = argv[1];
	if (mode == "replay") {
		std::ifstream f(argv[2]); FILE* out = fopen(argv[3], "w"); std::string line; long nh = 0, nops = 0;
		while (std::getline(f, line)) {
			if (line.empty()) continue;
			JV h = jparse(line);
			if (nh) fprintf(out, "{\"op\":\"reset\"}\n");
			Runner r(out); r.use_c = nh % 5 == 4;
			int rt = 0;
			for (auto& op : h.a) {
				const std::string& o = op["op"].str();
				if (o == "write") r.write(op["k"].integer(), op["v"].integer());
				else if (o == "remove") r.remove(op["k"].integer());
				else if (o == "get") r.get(op["k"].integer());
				else if (o == "roundtrip") r.roundtrip(rt++);
			}
			nops += r.nops; nh++;
		}
		fclose(out); printf("{\"histories\":%ld,\"ops\":%ld}\n", nh, nops); return 0;
	}
	if (mode == "random" && argc >= 6) {
		long count = atol(argv[2]), len = atol(argv[3]); Rng rng(strtoull(argv[4], 0, 10)); FILE* out = fopen(argv[5], "w"); long nops = 0;
		const int good_keys[] = {1, 2, 3, 4, 13, 17, 18};
		for (long h = 0; h < count; h++) {
			if (h) fprintf(out, "{\"op\":\"reset\"}\n");
			Runner r(out); r.use_c = h % 4 == 3; int rt = (int)h;
			for (long i = 0; i < len; i++) {
				int k = rng.below(10) < 7 ? good_keys[rng.below(7)] : 1 + (int)rng.below(NKEYS);
				switch (rng.below(10)) {
					case 0: case 1: case 2: case 3: case 4: r.write(k, 1 + (int)rng.below(16)); break;
					case 5: case 6: r.remove(k); break;
					case 7: case 8: r.get(k); break;
					default: r.roundtrip(rt++);
				}
			}
			r.roundtrip(rt++);
			nops += r.nops;
		}
		fclose(out); printf("{\"histories\":%ld,\"ops\":%ld}\n", count, nops); return 0;
	}
	return 2;
}
