// C12: drives the real walk_descents()/evaluate_descent() of src/fitter/cholesky_solve.c (compiled with
// -include pthread_shim.h) under a cooperative scheduler that follows schedules taken from the TLC state
// graph of spec/WalkDescents.tla, or under its own policies, or free-running with a recorder.  Every run
// produces the event sequence (one event per pthread call = one action of the specification) for trace
// validation, plus the bit pattern of the result.
//   c12_driver <plan.ndjson> <out.ndjson> [start-index]
#define VERIF_SHIM_IMPL
#include "pthread_shim.h"
#include "json.h"
#include <semaphore.h>
#include <signal.h>
#include <unistd.h>
#include <atomic>
#include <mutex>
#include <fstream>
#include <iostream>
#include <algorithm>
#include <set>
#include <map>
extern "C" {
#include "cholesky_solve.h"
}

// ------------------------------------------------------------------ scheduler / recorder state
enum Op { O_NONE, O_LOCK, O_UNLOCK, O_WAIT, O_WAKE, O_BCAST, O_CREATE, O_JOIN, O_START, O_EXIT, O_COMPUTE, O_CEND };
static const char* opname[] = {"none", "lock", "unlock", "wait", "wake", "bcast", "create", "join", "start", "exit", "compute", "cend"};
struct Ev { int th; Op op; std::vector<int> st; };

static const int MAXT = 70;
static int g_nw_expected = 0;
static int g_mode = 0;              // 0 free-running recorder, 1 controlled
static int g_nthreads = 0;          // registered threads (0 = coordinator)
static __thread int t_self = -1;
static sem_t g_sem[MAXT];
static Op g_pending[MAXT]; static int g_joinarg[MAXT];
static bool g_finished[MAXT], g_parked[MAXT], g_computing[MAXT];
static pthread_t g_real[MAXT];
static descent_trial* g_trial[MAXT];
static int g_owner = -1; static std::set<int> g_cvwait;
static std::vector<int> g_schedule; static size_t g_spos = 0; static std::string g_policy; static uint64_t g_rng = 1;
static bool g_drift = false, g_deadlock = false; static std::string g_driftwhat;
static std::vector<int> g_last_states; static std::string g_race;   // worker states at the previous event; first unprotected change seen
static std::vector<Ev> g_events; static std::mutex g_evlock;
static sem_t g_created;
static void (*g_on_deadlock)() = nullptr;

static std::vector<int> snapshot_states() {
	std::vector<int> s;
	for (int w = 1; w < g_nthreads; w++) s.push_back(g_trial[w] ? g_trial[w]->state : -1);
	return s;
}
static void record(int th, Op op, bool with_states) {
	Ev e; e.th = th; e.op = op; if (with_states && g_nthreads - 1 == g_nw_expected) e.st = snapshot_states();
	std::lock_guard<std::mutex> g(g_evlock); g_events.push_back(e);
}

static bool enabled(int t) {
	if (!g_parked[t] || g_finished[t]) return false;
	switch (g_pending[t]) {
		case O_LOCK: return g_owner == -1;
		case O_WAKE: return g_owner == -1 && !g_cvwait.count(t);
		case O_JOIN: return g_finished[g_joinarg[t]];
		case O_NONE: return false;
		default: return true;
	}
}
static uint64_t rnd() { g_rng ^= g_rng << 13; g_rng ^= g_rng >> 7; g_rng ^= g_rng << 17; return g_rng; }

// choose the next thread to run, apply the effect of its pending operation, log the event
static int choose_and_apply() {
	std::vector<int> en; for (int t = 0; t < g_nthreads; t++) if (enabled(t)) en.push_back(t);
	if (en.empty()) {
		bool all = true; for (int t = 0; t < g_nthreads; t++) if (!g_finished[t] && !(t == 0 && g_pending[0] == O_NONE)) all = false;
		(void)all; g_deadlock = true;
		if (g_on_deadlock) g_on_deadlock();
		_exit(0);
	}
	int pick = -1;
	if (g_spos < g_schedule.size()) {
		int want = g_schedule[g_spos++];
		if (std::find(en.begin(), en.end(), want) != en.end()) pick = want;
		else if (!g_drift) { g_drift = true; g_driftwhat = "scheduled thread " + std::to_string(want) + " not enabled at step " + std::to_string(g_spos - 1); }
	}
	if (pick < 0) {
		if (g_policy == "wf") pick = en.back();
		else if (g_policy == "cf") pick = en.front();
		else if (g_policy == "rand") pick = en[rnd() % en.size()];
		else { static int last = 0; pick = en[0]; for (int t : en) if (t > last) { pick = t; break; } last = pick; }   // round robin
	}
	Op op = g_pending[pick];
	switch (op) {
		case O_LOCK: g_owner = pick; break;
		case O_UNLOCK: g_owner = -1; break;
		case O_WAIT: g_owner = -1; g_cvwait.insert(pick); break;
		case O_WAKE: g_owner = pick; break;
		case O_BCAST: g_cvwait.clear(); break;
		case O_EXIT: g_finished[pick] = true; break;
		case O_COMPUTE: g_computing[pick] = true; break;
		case O_CEND: g_computing[pick] = false; break;
		default: break;
	}
	record(pick, op, op == O_LOCK || op == O_UNLOCK || op == O_WAIT || op == O_WAKE || op == O_BCAST);   // states only while the actor holds the mutex
	return pick;
}

// the calling thread announces its next operation and sleeps until the scheduler grants it
static void yield_point(Op op, int arg = 0) {
	int self = t_self;
	// the run segment of this thread that ends here: did it change a worker state field without holding the mutex?
	if (g_nthreads - 1 == g_nw_expected) {
		std::vector<int> now = snapshot_states();
		if (now.size() == g_last_states.size() && now != g_last_states && g_owner != self && g_race.empty())
			g_race = "thread " + std::to_string(self) + " changed a worker state field without holding the mutex (before its " + opname[op] + ")";
	}
	g_pending[self] = op; g_joinarg[self] = arg; g_parked[self] = true;
	int next = choose_and_apply();
	g_parked[next] = false;
	if (g_nthreads - 1 == g_nw_expected) g_last_states = snapshot_states();
	if (next != self) { sem_post(&g_sem[next]); sem_wait(&g_sem[self]); }
}
// hand the baton on without coming back (thread exit)
static void handoff_forever() {
	bool any = false; for (int t = 0; t < g_nthreads; t++) if (g_parked[t] && !g_finished[t]) any = true;
	if (!any) return;
	int next = choose_and_apply(); g_parked[next] = false; sem_post(&g_sem[next]);
}

struct Tramp { void* (*fn)(void*); void* arg; int id; };
static void* trampoline(void* p) {
	Tramp* tr = (Tramp*)p; t_self = tr->id;
	if (g_mode == 1) {
		g_pending[t_self] = O_START; g_parked[t_self] = true;
		sem_post(&g_created);            // tell the creator we are parked
		sem_wait(&g_sem[t_self]);        // wait for the grant of "start"
	} else record(t_self, O_START, false);
	void* (*fn)(void*) = tr->fn; void* arg = tr->arg; delete tr;
	fn(arg);
	vs_exit(nullptr);
}

extern "C" {
int vs_create(pthread_t* th, const pthread_attr_t* attr, void* (*fn)(void*), void* arg) {
	int id = g_nthreads;
	if (g_mode == 1) yield_point(O_CREATE); else record(0, O_CREATE, false);
	g_trial[id] = (descent_trial*)arg; g_finished[id] = false; g_parked[id] = false; g_computing[id] = false; g_pending[id] = O_NONE;
	g_nthreads = id + 1;
	Tramp* tr = new Tramp{fn, arg, id};
	int rc = pthread_create(&g_real[id], attr, trampoline, tr);
	*th = g_real[id];
	if (g_mode == 1) sem_wait(&g_created);
	return rc;
}
int vs_mutex_lock(pthread_mutex_t* m) {
	if (t_self > 0 && g_computing[t_self]) { if (g_mode == 1) yield_point(O_CEND); else { g_computing[t_self] = false; record(t_self, O_CEND, false); } }
	if (g_mode == 1) { yield_point(O_LOCK); return 0; }
	int rc = pthread_mutex_lock(m); record(t_self, O_LOCK, true); return rc;
}
int vs_mutex_unlock(pthread_mutex_t* m) {
	if (g_mode == 1) { yield_point(O_UNLOCK); return 0; }
	record(t_self, O_UNLOCK, true); return pthread_mutex_unlock(m);
}
int vs_cond_wait(pthread_cond_t* c, pthread_mutex_t* m) {
	if (g_mode == 1) { yield_point(O_WAIT); yield_point(O_WAKE); return 0; }
	record(t_self, O_WAIT, true); int rc = pthread_cond_wait(c, m); record(t_self, O_WAKE, true); return rc;
}
int vs_cond_broadcast(pthread_cond_t* c) {
	if (g_mode == 1) { yield_point(O_BCAST); return 0; }
	record(t_self, O_BCAST, true); return pthread_cond_broadcast(c);
}
int vs_join(pthread_t th, void** ret) {
	int k = -1; for (int t = 1; t < g_nthreads; t++) if (pthread_equal(g_real[t], th)) k = t;
	if (g_mode == 1) yield_point(O_JOIN, k);
	int rc = pthread_join(th, ret);
	if (g_mode != 1) record(0, O_JOIN, false);
	return rc;
}
void vs_exit(void* r) {
	if (g_mode == 1) { yield_point(O_EXIT); handoff_forever(); }
	else record(t_self, O_EXIT, false);
	pthread_exit(r);
}
int vs_sdmult(cholmod_sparse* A, int tr, double* a, double* b, cholmod_dense* X, cholmod_dense* Y, cholmod_common* c) {
	if (t_self > 0) { if (g_mode == 1) yield_point(O_COMPUTE); else { g_computing[t_self] = true; record(t_self, O_COMPUTE, false); } }
	return cholmod_l_sdmult(A, tr, a, b, X, Y, c);
}
}

// ------------------------------------------------------------------ problems
struct Problem { int nF; std::vector<double> A, b, x, xF; int na, firstred; };
static uint64_t prng = 88172645463325252ull;
static double urand() { prng ^= prng << 13; prng ^= prng >> 7; prng ^= prng << 17; return (prng >> 11) * (1.0 / 9007199254740992.0); }

static bool solve_dense(std::vector<double> A, std::vector<double> b, int n, std::vector<double>& x) {
	for (int i = 0; i < n; i++) {
		int p = i; for (int r = i + 1; r < n; r++) if (std::fabs(A[r * n + i]) > std::fabs(A[p * n + i])) p = r;
		if (std::fabs(A[p * n + i]) < 1e-12) return false;
		for (int c = 0; c < n; c++) std::swap(A[i * n + c], A[p * n + c]); std::swap(b[i], b[p]);
		for (int r = i + 1; r < n; r++) { double f = A[r * n + i] / A[i * n + i]; for (int c = i; c < n; c++) A[r * n + c] -= f * A[i * n + c]; b[r] -= f * b[i]; }
	}
	x.assign(n, 0);
	for (int i = n - 1; i >= 0; i--) { double s = b[i]; for (int c = i + 1; c < n; c++) s -= A[i * n + c] * x[c]; x[i] = s / A[i * n + i]; }
	return true;
}
static double objective(const Problem& p, const std::vector<double>& v) {   // x'(Ax - 2b), as calc_residual
	double r = 0; for (int i = 0; i < p.nF; i++) { double s = 0; for (int j = 0; j < p.nF; j++) s += p.A[i * p.nF + j] * v[j]; r += v[i] * (s - 2 * p.b[i]); } return r;
}
static void classify(Problem& p) {
	std::vector<double> al{0, 1};
	for (int i = 0; i < p.nF; i++) if (p.xF[i] < 0) { double a = p.x[i] / (p.x[i] - p.xF[i]); if (a < 1 && a > 0) al.push_back(a); }
	std::sort(al.begin() + 2, al.end(), [](double a, double b) { return a > b; });
	p.na = (int)al.size(); p.firstred = p.na;
	double ref = 0;
	for (int k = 0; k < p.na; k++) {
		std::vector<double> v(p.nF); for (int i = 0; i < p.nF; i++) { v[i] = (1 - al[k]) * p.x[i] + al[k] * p.xF[i]; if (v[i] < 0) v[i] = 0; }
		double r = objective(p, v);
		if (k == 0) ref = r; else if (r < ref - 1e-9 * (1 + std::fabs(ref))) { p.firstred = k; break; } else if (!(r > ref + 1e-9 * (1 + std::fabs(ref)))) { p.firstred = -1; break; }   // too close to call: reject
	}
}
static std::map<std::pair<int, int>, Problem> bank;
static void build_bank() {
	for (int trial = 0; trial < 60000; trial++) {
		Problem p; p.nF = 2 + (int)(urand() * 6);
		int n = p.nF; std::vector<double> M(n * n); for (auto& v : M) v = urand() * 2 - 1;
		p.A.assign(n * n, 0);
		for (int i = 0; i < n; i++) for (int j = 0; j < n; j++) { double s = 0; for (int k = 0; k < n; k++) s += M[k * n + i] * M[k * n + j]; p.A[i * n + j] = s + (i == j ? 0.3 : 0); }
		p.b.resize(n); for (auto& v : p.b) v = urand() * 4 - 2;
		p.x.resize(n); for (auto& v : p.x) v = urand() < 0.2 ? 0.0 : urand() * 2;
		if (!solve_dense(p.A, p.b, n, p.xF)) continue;
		bool neg = false; for (double v : p.xF) if (v < 0) neg = true; if (!neg) continue;
		classify(p);
		if (p.firstred < 0) continue;
		auto key = std::make_pair(p.na, p.firstred);
		if (!bank.count(key)) bank[key] = p;
	}
}

static cholmod_sparse* dense_to_sparse(const std::vector<double>& A, int n, cholmod_common* c) {
	cholmod_dense* d = cholmod_l_allocate_dense(n, n, n, CHOLMOD_REAL, c);
	for (int i = 0; i < n; i++) for (int j = 0; j < n; j++) ((double*)d->x)[j * n + i] = A[i * n + j];
	cholmod_sparse* s = cholmod_l_dense_to_sparse(d, 1, c); cholmod_l_free_dense(&d, c); s->stype = 0; return s;
}
static cholmod_dense* vec(const std::vector<double>& v, cholmod_common* c) {
	cholmod_dense* d = cholmod_l_allocate_dense(v.size(), 1, v.size(), CHOLMOD_REAL, c);
	for (size_t i = 0; i < v.size(); i++) ((double*)d->x)[i] = v[i]; return d;
}

// ------------------------------------------------------------------ runs
static FILE* g_out = nullptr; static long g_run = 0; static JV g_plan; static int g_nw, g_na, g_fr;
static void write_record(const char* status, const std::string& result) {
	JW w; w.i("run", g_run).i("nw", g_nw).i("na", g_na).i("firstred", g_fr).s("policy", g_policy).s("status", status).b("drift", g_drift).s("driftwhat", g_driftwhat).s("race", g_race);
	std::ostringstream os; os << "[";
	for (size_t i = 0; i < g_events.size(); i++) {
		if (i) os << ","; os << "{\"th\":" << g_events[i].th << ",\"op\":\"" << opname[g_events[i].op] << "\"";
		if (!g_events[i].st.empty()) { os << ",\"st\":["; for (size_t k = 0; k < g_events[i].st.size(); k++) os << (k ? "," : "") << g_events[i].st[k]; os << "]"; }
		os << "}";
	}
	os << "]"; w.raw("events", os.str());
	if (!result.empty()) w.raw("result", result);
	if (g_deadlock) {
		std::ostringstream ps; ps << "[";
		for (int t = 0; t < g_nthreads; t++) ps << (t ? "," : "") << "\"" << (g_finished[t] ? "finished" : opname[g_pending[t]]) << "\"";
		ps << "]"; w.raw("pending", ps.str());
	}
	w.emit(g_out); fflush(g_out);
}
static void on_deadlock() { write_record("deadlock", ""); fprintf(g_out, "{\"stopped_at\":%ld}\n", g_run); fflush(g_out); }
static void on_alarm(int) { g_deadlock = false; write_record("hang", ""); fprintf(g_out, "{\"stopped_at\":%ld}\n", g_run); fflush(g_out); _exit(0); }

int main(int argc, char** argv) {
	if (argc < 3) return 2;
	std::ifstream pf(argv[1]); g_out = fopen(argv[2], "a"); long start = argc > 3 ? atol(argv[3]) : 0;
	build_bank();
	{ JW w; std::ostringstream os; os << "["; bool f = true; for (auto& kv : bank) { os << (f ? "" : ",") << "[" << kv.first.first << "," << kv.first.second << "]"; f = false; } os << "]"; w.raw("bank", os.str()); if (start == 0) w.emit(g_out); }
	g_on_deadlock = on_deadlock; signal(SIGALRM, on_alarm);
	for (int i = 0; i < MAXT; i++) sem_init(&g_sem[i], 0, 0);
	sem_init(&g_created, 0, 0);
	cholmod_common cc; cholmod_l_start(&cc);
	std::string line; long idx = -1;
	while (std::getline(pf, line)) {
		if (line.empty()) continue; idx++; if (idx < start) continue;
		JV pl = jparse(line); g_run = idx;
		g_nw = pl["nw"].integer(); g_nw_expected = g_nw; g_na = pl["na"].integer(); g_fr = pl["firstred"].integer(); g_policy = pl["policy"].str();
		g_schedule.clear(); if (pl.has("schedule")) for (auto v : pl["schedule"].ints()) g_schedule.push_back((int)v);
		g_spos = 0; g_rng = pl.has("seed") ? (uint64_t)pl["seed"].integer() * 2654435761u + 1 : 1;
		g_events.clear(); g_drift = false; g_deadlock = false; g_driftwhat.clear(); g_owner = -1; g_cvwait.clear(); g_last_states.clear(); g_race.clear();
		for (int t = 0; t < MAXT; t++) { g_finished[t] = false; g_parked[t] = false; g_pending[t] = O_NONE; g_trial[t] = nullptr; g_computing[t] = false; }
		g_nthreads = 1; t_self = 0; g_mode = g_policy == "free" ? 0 : 1;
		auto it = bank.find({g_na, g_fr});
		if (it == bank.end()) { write_record("no-problem", ""); continue; }
		const Problem& p = it->second; int n = p.nF;
		char nb[16]; snprintf(nb, 16, "%d", g_nw); setenv("OMP_NUM_THREADS", nb, 1); unsetenv("GOTO_NUM_THREADS");
		if (pl.has("goto")) { setenv("GOTO_NUM_THREADS", nb, 1); setenv("OMP_NUM_THREADS", "1", 1); }
		cholmod_sparse* A = dense_to_sparse(p.A, n, &cc); cholmod_dense* b = vec(p.b, &cc); cholmod_dense* x = vec(p.x, &cc); cholmod_dense* xF = vec(p.xF, &cc);
		std::vector<long> F(n), H1(n + 2, -1); for (int i = 0; i < n; i++) F[i] = i;
		long nF = n, nH1 = 0; double residual = 1e300; int rc = 0;
		alarm(60);
		int feasible = walk_descents(A, b, x, xF, F.data(), &nF, H1.data(), &nH1, &residual, &rc, 0, &cc);
		alarm(0);
		std::ostringstream rs; rs << "{\"feasible\":" << feasible << ",\"nH1\":" << nH1 << ",\"x\":[";
		for (int i = 0; i < n; i++) rs << (i ? "," : "") << "\"" << bits64(((double*)x->x)[i]) << "\"";
		rs << "],\"H1\":["; for (long i = 0; i < nH1; i++) rs << (i ? "," : "") << H1[i];
		rs << "],\"residual\":\"" << bits64(feasible ? residual : 0.0) << "\"}";
		write_record("done", rs.str());
		cholmod_l_free_sparse(&A, &cc); cholmod_l_free_dense(&b, &cc); cholmod_l_free_dense(&x, &cc); cholmod_l_free_dense(&xF, &cc);
	}
	fprintf(g_out, "{\"stopped_at\":-1}\n"); fclose(g_out);
	cholmod_l_finish(&cc);
	return 0;
}
