// C11: the four exported NNLS solvers on the systems of spec/MC_Nnls.tla (exact minimiser known) and on random systems.
//   nnls_driver small <systems.ndjson> <seed> <out.ndjson>
//   nnls_driver random <count> <seed> <out.ndjson>
//   nnls_driver trace <systems.ndjson> <stride> <offset> <trace.ndjson>    per-phase trace of nnls_normal_block3 (hook) for Trace_Block3
#include "json.h"
#include <cholmod.h>
#include <fstream>
#include <vector>
#include <cmath>
#include <unistd.h>
#include <signal.h>
extern "C" {
#include "photospline/detail/splineutil.h"
}
typedef long double LD;
struct RngL { uint64_t s; explicit RngL(uint64_t seed) : s(seed * 0x9E3779B97F4A7C15ull + 77) {} uint64_t next() { uint64_t z = (s += 0x9E3779B97F4A7C15ull); z = (z ^ (z >> 30)) * 0xBF58476D1CE4E5B9ull; z = (z ^ (z >> 27)) * 0x94D049BB133111EBull; return z ^ (z >> 31); } double unit() { return (next() >> 11) * (1.0 / 9007199254740992.0); } uint64_t below(uint64_t n) { return next() % n; } };

static cholmod_common cc; static const char* g_cur = "?"; static std::string g_curtag;
static cholmod_sparse* to_sparse(const std::vector<double>& A, int n) {
	cholmod_dense* d = cholmod_l_allocate_dense(n, n, n, CHOLMOD_REAL, &cc);
	for (int i = 0; i < n; i++) for (int j = 0; j < n; j++) ((double*)d->x)[j * n + i] = A[i * n + j];
	cholmod_sparse* s = cholmod_l_dense_to_sparse(d, 1, &cc); cholmod_l_free_dense(&d, &cc); s->stype = 0; return s;
}
static cholmod_dense* to_vec(const std::vector<double>& v) { cholmod_dense* d = cholmod_l_allocate_dense(v.size(), 1, v.size(), CHOLMOD_REAL, &cc); for (size_t i = 0; i < v.size(); i++) ((double*)d->x)[i] = v[i]; return d; }
static const char* SOLVER[] = {"block3", "block", "block_updown", "lawson_hanson_normal", "lawson_hanson_lsq", "lawson_hanson_lsq_rect"};
static const double TOL[] = {1e-9, 1e-5, 1e-5, 1e-8, 1e-8, 1e-8};   // accuracy each solver states / is run with
// solver 5: Lawson-Hanson in least-squares form on an over-determined m x n system (set before the call)
static std::vector<double> g_rectM, g_recty; static int g_rectm = 0;
static bool cholesky(const std::vector<double>& A, int n, std::vector<double>& L) {
	L.assign(n * n, 0);
	for (int j = 0; j < n; j++) { double s = A[j * n + j]; for (int k = 0; k < j; k++) s -= L[j * n + k] * L[j * n + k]; if (!(s > 0)) return false; L[j * n + j] = std::sqrt(s);
		for (int i = j + 1; i < n; i++) { double v = A[i * n + j]; for (int k = 0; k < j; k++) v -= L[i * n + k] * L[j * n + k]; L[i * n + j] = v / L[j * n + j]; } }
	return true;
}
static bool solve(int which, const std::vector<double>& A, const std::vector<double>& b, int n, std::vector<double>& x) {
	cholmod_sparse* As = to_sparse(A, n); cholmod_dense* bd = to_vec(b); cholmod_dense* r = nullptr;
	g_cur = SOLVER[which];
	alarm(60);
	if (which == 0) r = nnls_normal_block3(As, bd, 0, &cc);
	else if (which == 1) r = nnls_normal_block(As, bd, 0, &cc);
	else if (which == 2) r = nnls_normal_block_updown(As, bd, 0, &cc);
	else if (which == 3) r = nnls_lawson_hanson(As, bd, 1e-10, 0, 0, 0, 1, 0, &cc);
	else if (which == 5) {
		cholmod_dense* Md = cholmod_l_allocate_dense(g_rectm, n, g_rectm, CHOLMOD_REAL, &cc);
		for (int i = 0; i < g_rectm; i++) for (int j = 0; j < n; j++) ((double*)Md->x)[j * g_rectm + i] = g_rectM[i * n + j];
		cholmod_sparse* Ms = cholmod_l_dense_to_sparse(Md, 1, &cc); cholmod_l_free_dense(&Md, &cc); Ms->stype = 0;
		cholmod_dense* yd = to_vec(g_recty);
		r = nnls_lawson_hanson(Ms, yd, 1e-10, 0, 0, 0, 0, 0, &cc); cholmod_l_free_sparse(&Ms, &cc); cholmod_l_free_dense(&yd, &cc);
	}
	else {   // least-squares form: A = R'R, b = R'y  ->  minimise |Rx - y|^2
		std::vector<double> L; if (!cholesky(A, n, L)) { cholmod_l_free_sparse(&As, &cc); cholmod_l_free_dense(&bd, &cc); alarm(0); return false; }
		std::vector<double> R(n * n), y(n); for (int i = 0; i < n; i++) for (int j = 0; j < n; j++) R[i * n + j] = L[j * n + i];
		for (int i = 0; i < n; i++) { double s = b[i]; for (int k = 0; k < i; k++) s -= L[i * n + k] * y[k]; y[i] = s / L[i * n + i]; }
		cholmod_sparse* Rs = to_sparse(R, n); cholmod_dense* yd = to_vec(y);
		r = nnls_lawson_hanson(Rs, yd, 1e-10, 0, 0, 0, 0, 0, &cc); cholmod_l_free_sparse(&Rs, &cc); cholmod_l_free_dense(&yd, &cc);
	}
	alarm(0);
	bool ok = r != nullptr; if (ok) { x.assign((double*)r->x, (double*)r->x + n); cholmod_l_free_dense(&r, &cc); }
	cholmod_l_free_sparse(&As, &cc); cholmod_l_free_dense(&bd, &cc); return ok;
}
// exact-ish reference for n <= 12: enumerate active sets in long double
static bool gauss(std::vector<LD> A, std::vector<LD> b, int n, std::vector<LD>& x) {
	for (int i = 0; i < n; i++) { int p = i; for (int r = i + 1; r < n; r++) if (fabsl(A[r * n + i]) > fabsl(A[p * n + i])) p = r; if (fabsl(A[p * n + i]) < 1e-30L) return false;
		for (int c = 0; c < n; c++) std::swap(A[i * n + c], A[p * n + c]); std::swap(b[i], b[p]);
		for (int r = i + 1; r < n; r++) { LD f = A[r * n + i] / A[i * n + i]; for (int c = i; c < n; c++) A[r * n + c] -= f * A[i * n + c]; b[r] -= f * b[i]; } }
	x.assign(n, 0); for (int i = n - 1; i >= 0; i--) { LD s = b[i]; for (int c = i + 1; c < n; c++) s -= A[i * n + c] * x[c]; x[i] = s / A[i * n + i]; } return true;
}
static bool reference(const std::vector<double>& A, const std::vector<double>& b, int n, std::vector<LD>& best) {
	bool found = false; LD bestmargin = -1;
	for (unsigned mask = 0; mask < (1u << n); mask++) {
		std::vector<int> F; for (int i = 0; i < n; i++) if (mask & (1u << i)) F.push_back(i); int k = (int)F.size();
		std::vector<LD> AF(k * k), bF(k), y; for (int i = 0; i < k; i++) { bF[i] = b[F[i]]; for (int j = 0; j < k; j++) AF[i * k + j] = A[F[i] * n + F[j]]; }
		if (k && !gauss(AF, bF, k, y)) continue;
		std::vector<LD> x(n, 0); for (int i = 0; i < k; i++) x[F[i]] = y[i];
		LD margin = 1e30L; bool ok = true;
		for (int i = 0; i < n && ok; i++) { LD g = -b[i]; for (int j = 0; j < n; j++) g += (LD)A[i * n + j] * x[j]; if (mask & (1u << i)) { if (x[i] < 0) ok = false; margin = std::min(margin, x[i]); } else { if (g < 0) ok = false; margin = std::min(margin, g); } }
		if (ok && margin > bestmargin) { best = x; bestmargin = margin; found = true; }
	}
	return found;
}
static LD cond_est(const std::vector<double>& A, int n) {
	LD na = 0, ni = 0; std::vector<LD> AL(A.begin(), A.end());
	for (int j = 0; j < n; j++) { LD s = 0; for (int i = 0; i < n; i++) s += fabsl(AL[i * n + j]); na = std::max(na, s); }
	for (int j = 0; j < n; j++) { std::vector<LD> e(n, 0), c; e[j] = 1; if (!gauss(AL, e, n, c)) return INFINITY; LD s = 0; for (LD v : c) s += fabsl(v); ni = std::max(ni, s); }
	return na * ni;
}
static std::string classes(const std::vector<double>& A, const std::vector<double>& b, int n, const std::vector<double>& x, double tol, std::string& gout) {
	std::string xs = "[", gs = "["; LD xmax = 0; for (double v : x) xmax = std::max(xmax, fabsl(v));
	for (int i = 0; i < n; i++) {
		LD g = -b[i], scale = fabsl(b[i]); for (int j = 0; j < n; j++) { g += (LD)A[i * n + j] * x[j]; scale += fabsl((LD)A[i * n + j] * x[j]); }
		LD tg = tol * (1 + scale) * 100, tx = tol * (1 + xmax);
		xs += std::string(i ? "," : "") + (x[i] > tx ? "\"pos\"" : (x[i] < -tx ? "\"neg\"" : "\"zero\""));
		gs += std::string(i ? "," : "") + (g > tg ? "\"pos\"" : (g < -tg ? "\"neg\"" : "\"zero\""));
	}
	gout = gs + "]"; return xs + "]";
}
static void emit(FILE* out, const char* kind, int which, int n, const std::vector<double>& A, const std::vector<double>& b, const std::vector<LD>* xref, const std::string& tag, int scale_exp) {
	g_curtag = tag + " n=" + std::to_string(n); std::vector<double> x; bool ok = solve(which, A, b, n, x);
	JW w; w.s("kind", kind).s("solver", SOLVER[which]).i("n", n).b("returned", ok).s("tag", tag).i("scale_exp", scale_exp);
	if (ok) {
		bool finite = true, exact_nonneg = true; for (double v : x) { if (!std::isfinite(v)) finite = false; if (v < 0) exact_nonneg = false; }
		std::string gs, xs = classes(A, b, n, x, TOL[which], gs);
		w.b("finite", finite).b("exact_nonneg", exact_nonneg).raw("x", xs).raw("g", gs);
		if (xref) { LD cond = cond_est(A, n), d = 0, xm = 0; for (int i = 0; i < n; i++) { d = std::max(d, fabsl((LD)x[i] - (*xref)[i])); xm = std::max(xm, fabsl((*xref)[i])); }
			w.b("has_ref", true).b("dist_ok", d <= TOL[which] * (1 + cond) * (1 + xm) * 10).d("dist", (double)d).d("cond", (double)cond); }
		else w.b("has_ref", false).b("dist_ok", true);
	}
	w.emit(out);
}
// ---- the verification hook of nnls_normal_block3 (src/fitter/nnls.c, guard PHOTOSPLINE_VERIF): one line per phase
static FILE* g_trace = nullptr;
static long q16(double v) { double r = std::floor(v * 65536.0 + 0.5); if (!(std::fabs(r) < 2e9)) return r > 0 ? 2000000000L : -2000000000L; return (long)r; }
extern "C" void photospline_verif_block3(const char* phase, int iter, int nvar, const long* F, long nF, const long* H1, long nH1, const long* H2, long nH2,
                                         const double* x, const double* y, int solved) {
	if (!g_trace) return;
	auto set = [&](const char* k, const long* a, long n) { fprintf(g_trace, ",\"%s\":[", k); for (long i = 0; i < n; i++) fprintf(g_trace, "%s%ld", i ? "," : "", a[i] + 1); fputc(']', g_trace); };
	fprintf(g_trace, "{\"e\":\"%s\",\"iter\":%d", phase, iter); set("F", F, nF); set("H1", H1, nH1); set("H2", H2, nH2);
	fprintf(g_trace, ",\"x\":["); for (int i = 0; i < nvar; i++) fprintf(g_trace, "%s%ld", i ? "," : "", q16(x[i]));
	// multipliers as sign classes with the solver's own tolerance
	double tol = nvar * 2.220446049250313e-16 * 1e5;
	fprintf(g_trace, "],\"y\":["); for (int i = 0; i < nvar; i++) fprintf(g_trace, "%s%d", i ? "," : "", y[i] < -tol ? -1 : (y[i] > tol ? 1 : 0));
	fprintf(g_trace, "],\"solved\":%s}\n", solved ? "true" : "false");
}

// ---- the verification hook of nnls_lawson_hanson: one line per phase (coordinates 1-based, x to 2^-16)
extern "C" void photospline_verif_lh(const char* phase, long index, double alpha, const long* P, unsigned nP, const long* Z, unsigned nZ, const double* x, long nvar) {
	if (!g_trace) return;
	auto seq = [&](const char* k, const long* a, unsigned n) { fprintf(g_trace, ",\"%s\":[", k); for (unsigned i = 0; i < n; i++) fprintf(g_trace, "%s%ld", i ? "," : "", a[i] + 1); fputc(']', g_trace); };
	fprintf(g_trace, "{\"e\":\"%s\",\"i\":%ld,\"alpha\":%ld", phase, index + 1, q16(alpha)); seq("P", P, nP); seq("Z", Z, nZ);
	fprintf(g_trace, ",\"x\":["); for (long i = 0; i < nvar; i++) fprintf(g_trace, "%s%ld", i ? "," : "", q16(x[i])); fprintf(g_trace, "]}\n");
}

int main(int argc, char** argv) {
	if (argc < 5) return 2; std::string mode = argv[1]; cholmod_l_start(&cc); setenv("OMP_NUM_THREADS", "2", 0);
	signal(SIGALRM, [](int) { fprintf(stderr, "HANG in nnls solver %s on %s\n", g_cur, g_curtag.c_str()); _exit(14); });
	RngL rng(strtoull(argv[3], 0, 10)); FILE* out = (mode == "trace" || mode == "tracelh") ? nullptr : fopen(argv[4], "w"); long cnt = 0;
	if (mode == "trace" || mode == "tracelh") {
		if (argc < 6) return 2;
		// argv: trace <systems> <stride> <offset> <trace file>
		std::ifstream f(argv[2]); long stride = atol(argv[3]), offset = atol(argv[4]); g_trace = fopen(argv[5], "w"); std::string line; long k = 0, done = 0;
		while (std::getline(f, line)) {
			if (line.empty()) continue; if ((k++ % stride) != offset) continue;
			JV c = jparse(line); int n = (int)c["n"].integer(); std::vector<double> A(n * n), b(n), x;
			for (int i = 0; i < n; i++) { b[i] = (double)c["b"].a[i].integer(); for (int j = 0; j < n; j++) A[i * n + j] = (double)c["A"].a[i].a[j].integer(); }
			fprintf(g_trace, "{\"e\":\"start\",\"n\":%d,\"A\":%s,\"b\":%s}\n", n, line.substr(line.find("\"A\":") + 4, line.find("]]") + 2 - line.find("\"A\":") - 4).c_str(), line.substr(line.find("\"b\":") + 4, line.find("]", line.find("\"b\":")) + 1 - line.find("\"b\":") - 4).c_str());
			if (mode == "tracelh") { solve(3, A, b, n, x); done++; continue; }      // the hook writes the records, "end" included
			bool ok = solve(0, A, b, n, x);
			fprintf(g_trace, "{\"e\":\"end\",\"ok\":%s,\"x\":[", ok ? "true" : "false"); for (int i = 0; ok && i < n; i++) fprintf(g_trace, "%s%ld", i ? "," : "", q16(x[i])); fprintf(g_trace, "]}\n");
			done++;
		}
		fclose(g_trace); g_trace = nullptr; printf("{\"traced\":%ld}\n", done); return 0;
	}
	if (mode == "small") {
		std::ifstream f(argv[2]); std::string line;
		while (std::getline(f, line)) {
			if (line.empty()) continue; JV j = jparse(line); int n = (int)j["n"].integer(); std::vector<double> A(n * n), b(n); std::vector<LD> xr(n);
			for (int i = 0; i < n; i++) { b[i] = (double)j["b"][i].integer(); xr[i] = (LD)j["x"][i][0].integer() / (LD)j["x"][i][1].integer(); for (int k = 0; k < n; k++) A[i * n + k] = (double)j["A"][i][k].integer(); }
			// exact diagonal rescaling by powers of two: A' = D A D, b' = D b, x' = D^-1 x
			int e = cnt % 3 == 0 ? 0 : (int)rng.below(5) * 6 - 12; std::vector<double> A2 = A, b2 = b; std::vector<LD> x2 = xr;
			if (e) { std::vector<int> ex(n); for (int i = 0; i < n; i++) ex[i] = (i % 2 ? e : -e / 2); for (int i = 0; i < n; i++) { b2[i] = std::ldexp(b[i], ex[i]); x2[i] = ldexpl(xr[i], -ex[i]); for (int k = 0; k < n; k++) A2[i * n + k] = std::ldexp(A[i * n + k], ex[i] + ex[k]); } }
			std::ostringstream tg; tg << "A=["; for (double v : A) tg << v << " "; tg << "] b=["; for (double v : b) tg << v << " "; tg << "]";
			for (int s = 0; s < 5; s++) emit(out, "small", s, n, A2, b2, &x2, tg.str(), e);
			cnt++;
		}
	} else {
		long count = atol(argv[2]);
		for (long it = 0; it < count; it++) {
			int n = it % 4 == 3 ? 20 + (int)rng.below(180) : 2 + (int)rng.below(11); double dens = n > 12 ? 0.08 : 0.7; int rowsM = n + 2 + (int)rng.below(n);
			std::vector<double> M(rowsM * n, 0); for (auto& v : M) if (rng.unit() < dens) v = rng.unit() * 2 - 1;
			std::vector<double> A(n * n, 0), b(n), z(n);
			for (int i = 0; i < n; i++) for (int k = 0; k < n; k++) { double s = 0; for (int r = 0; r < rowsM; r++) s += M[r * n + i] * M[r * n + k]; A[i * n + k] = s + (i == k ? 0.05 : 0); }
			int style = (int)(it % 3);   // 0 random rhs, 1 degenerate (solution components exactly zero with zero multiplier), 2 badly scaled
			for (int i = 0; i < n; i++) z[i] = style == 1 ? (i % 3 == 0 ? 0.0 : (double)(1 + rng.below(4))) : rng.unit() * 4 - 2;
			for (int i = 0; i < n; i++) { double s = 0; for (int k = 0; k < n; k++) s += A[i * n + k] * z[k]; b[i] = s; }
			if (style == 2) for (int i = 0; i < n; i++) { int e = (int)(i % 5) * 2 - 4; b[i] = std::ldexp(b[i], e); for (int k = 0; k < n; k++) { A[i * n + k] = std::ldexp(A[i * n + k], e); A[k * n + i] = std::ldexp(A[k * n + i], e); } }
			std::vector<LD> xr; bool hasref = n <= 12 && reference(A, b, n, xr);
			for (int s = 0; s < 5; s++) emit(out, "random", s, n, A, b, hasref ? &xr : nullptr, "random it=" + std::to_string(it) + " style=" + std::to_string(style), 0);
		}
	}
	if (mode == "random") {
		// over-determined least-squares systems for the least-squares form of Lawson-Hanson (m = n .. 2n + 10 rows)
		long count = atol(argv[2]);
		for (long it = 0; it < count / 2 + 10; it++) {
			int n = 1 + (int)rng.below(9); int extra = it % 4 == 0 ? 0 : (it % 4 == 1 ? 1 + (int)rng.below(2) : (it % 4 == 2 ? n : 3 + (int)rng.below(8))); int m = n + extra;
			std::vector<double> M(m * n), y(m);
			for (auto& v : M) v = it % 5 == 3 ? (double)((int)rng.below(5) - 2) : rng.unit() * 2 - 1;
			if (it % 5 == 1) for (auto& v : M) if (rng.below(3) == 0) v = 0;
			for (int j = 0; j < n; j++) M[j * n + j] += it % 5 == 3 ? 6 : (M[j * n + j] >= 0 ? 1.5 : -1.5);
			for (auto& v : y) v = it % 5 == 3 ? (double)((int)rng.below(5) - 2) : rng.unit() * 2 - 1;
			std::vector<double> A(n * n), b(n);
			for (int i = 0; i < n; i++) { for (int j = 0; j < n; j++) { LD sm = 0; for (int k = 0; k < m; k++) sm += (LD)M[k * n + i] * M[k * n + j]; A[i * n + j] = (double)sm; } LD sm = 0; for (int k = 0; k < m; k++) sm += (LD)M[k * n + i] * y[k]; b[i] = (double)sm; }
			std::vector<LD> xr; if (!reference(A, b, n, xr)) continue;
			g_rectM = M; g_recty = y; g_rectm = m;
			emit(out, "random", 5, n, A, b, &xr, "rect it=" + std::to_string(it) + " m=" + std::to_string(m), 0);
		}
	}
	fclose(out); cholmod_l_finish(&cc); printf("{\"done\":true}\n"); return 0;
}
