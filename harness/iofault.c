/* LD_PRELOAD interposer for the stdio calls cfitsio uses for disk files (C08).
 * IOFAULT_MATCH   substring of the path whose stream is watched
 * IOFAULT_LOG     file that receives one line per operation on the watched stream:  <index> <op> <offset> <length> <result>
 * IOFAULT_DATA    file that receives the payload of every fwrite, concatenated (the log gives the lengths)
 * IOFAULT_FAIL    index of the operation that is made to fail (-1: none)
 * IOFAULT_ERRNO   errno for the failing operation (default ENOSPC)
 * The watched stream is switched to unbuffered so that every fwrite is one write(2).
 */
#define _GNU_SOURCE 1
#include <stdio.h>
#include <stdlib.h>
#include <string.h>
#include <dlfcn.h>
#include <errno.h>
#include <unistd.h>
#include <sys/types.h>

static FILE* watched = NULL;
static long opindex = 0;
static FILE* logf = NULL; static FILE* dataf = NULL;
static long fail_at = -1; static int fail_errno = ENOSPC;
static int inited = 0;

static void init(void) {
	if (inited) return; inited = 1;
	const char* f = getenv("IOFAULT_FAIL"); if (f) fail_at = atol(f);
	const char* e = getenv("IOFAULT_ERRNO"); if (e) fail_errno = atoi(e);
}
static FILE* (*real_fopen64)(const char*, const char*);
static FILE* (*real_fopen)(const char*, const char*);
static size_t (*real_fwrite)(const void*, size_t, size_t, FILE*);
static int (*real_fflush)(FILE*);
static int (*real_fclose)(FILE*);
static int (*real_fseeko64)(FILE*, off64_t, int);
static int (*real_fseeko)(FILE*, off_t, int);

static void logop(const char* op, long off, long len, long res) {
	if (!logf) { const char* p = getenv("IOFAULT_LOG"); if (p) { if (!real_fopen) real_fopen = dlsym(RTLD_NEXT, "fopen"); logf = real_fopen(p, "a"); } }
	if (logf) { fprintf(logf, "%ld %s %ld %ld %ld\n", opindex, op, off, len, res); real_fflush ? real_fflush(logf) : fflush(logf); }
}
static int should_fail(void) { return fail_at >= 0 && opindex == fail_at; }

static FILE* open_common(FILE* r, const char* path, const char* mode) {
	init();
	const char* m = getenv("IOFAULT_MATCH");
	if (r && m && strstr(path, m) && (strchr(mode, 'w') || strchr(mode, '+'))) {
		watched = r; setvbuf(r, NULL, _IONBF, 0);
		logop("open", 0, 0, 0); opindex++;
	}
	return r;
}
FILE* fopen64(const char* path, const char* mode) { if (!real_fopen64) real_fopen64 = dlsym(RTLD_NEXT, "fopen64"); return open_common(real_fopen64(path, mode), path, mode); }
FILE* fopen(const char* path, const char* mode) { if (!real_fopen) real_fopen = dlsym(RTLD_NEXT, "fopen"); return open_common(real_fopen(path, mode), path, mode); }

size_t fwrite(const void* p, size_t sz, size_t n, FILE* f) {
	if (!real_fwrite) real_fwrite = dlsym(RTLD_NEXT, "fwrite");
	if (f != watched || !watched) return real_fwrite(p, sz, n, f);
	long off = ftello(f);
	if (should_fail()) { logop("write", off, (long)(sz * n), -1); opindex++; errno = fail_errno; return 0; }
	size_t r = real_fwrite(p, sz, n, f);
	if (!dataf) { const char* d = getenv("IOFAULT_DATA"); if (d) { if (!real_fopen) real_fopen = dlsym(RTLD_NEXT, "fopen"); dataf = real_fopen(d, "a"); } }
	if (dataf) { real_fwrite(p, sz, n, dataf); if (!real_fflush) real_fflush = dlsym(RTLD_NEXT, "fflush"); real_fflush(dataf); }
	logop("write", off, (long)(sz * n), (long)r); opindex++;
	return r;
}
int fflush(FILE* f) {
	if (!real_fflush) real_fflush = dlsym(RTLD_NEXT, "fflush");
	if (f != watched || !watched) return real_fflush(f);
	if (should_fail()) { logop("flush", 0, 0, -1); opindex++; errno = fail_errno; return EOF; }
	int r = real_fflush(f); logop("flush", 0, 0, r); opindex++; return r;
}
int fclose(FILE* f) {
	if (!real_fclose) real_fclose = dlsym(RTLD_NEXT, "fclose");
	if (f != watched || !watched) return real_fclose(f);
	int failing = should_fail();
	int r = real_fclose(f); watched = NULL;
	if (failing) { logop("close", 0, 0, -1); opindex++; errno = fail_errno; return EOF; }
	logop("close", 0, 0, r); opindex++; return r;
}
int fseeko64(FILE* f, off64_t o, int w) {
	if (!real_fseeko64) real_fseeko64 = dlsym(RTLD_NEXT, "fseeko64");
	if (f != watched || !watched) return real_fseeko64(f, o, w);
	if (should_fail()) { logop("seek", (long)o, 0, -1); opindex++; errno = fail_errno; return -1; }
	int r = real_fseeko64(f, o, w); logop("seek", (long)o, 0, r); opindex++; return r;
}
int fseeko(FILE* f, off_t o, int w) {
	if (!real_fseeko) real_fseeko = dlsym(RTLD_NEXT, "fseeko");
	if (f != watched || !watched) return real_fseeko(f, o, w);
	if (should_fail()) { logop("seek", (long)o, 0, -1); opindex++; errno = fail_errno; return -1; }
	int r = real_fseeko(f, o, w); logop("seek", (long)o, 0, r); opindex++; return r;
}
