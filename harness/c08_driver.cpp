// C08: write a catalogue table (C++ or C entry point) and report what the writer said; read a file back and compare
// with the catalogue table.  Built without sanitizers so that the stdio interposer can be LD_PRELOADed.
//   c08_driver write <table-id> <path> <cxx|c>      -> {"reported":"success"|"failure","what":...}
//   c08_driver readback <table-id> <path>           -> {"verdict":"equal"|"reject"|"different"|"missing"}
#include "evalapi.h"
#include <sys/stat.h>
#include <sys/resource.h>
#include <signal.h>

static TableSpec catalogue(int id) {
	// sizes from one FITS block of coefficients to several hundred
	TableSpec s; Rng rng(1000 + id);
	static const int dims[] = {1, 1, 2, 2, 3, 4, 5, 2};
	static const int target[] = {4, 400, 30, 2500, 700, 1500, 3000, 200000};
	if (id == 17) {   // 2400 x 20 coefficients: more data than cfitsio buffers, and a first knot vector of seven blocks - blocks written
		              // earlier are evicted (written to disk) while KNOTS0 is being written, so an error can surface in that very call
		s.ndim = 2; s.order = {2, 1}; const int nax[2] = {2400, 20};
		for (int d = 0; d < 2; d++) { std::vector<double> k; double v = -1; for (int j = 0; j < nax[d] + (int)s.order[d] + 1; j++) { k.push_back(v); v += 0.5 + rng.unit(); } s.knots.push_back(k); }
		s.coeffs.resize(s.ncoeffs()); for (auto& c : s.coeffs) c = (float)rng.range(-4, 4);
		return s;
	}
	if (id == 16) {   // 40 x 359 coefficients, orders 2 and 3: the second knot vector ends three entries into its last block
		s.ndim = 2; s.order = {2, 3}; const int nax[2] = {40, 359};
		for (int d = 0; d < 2; d++) { std::vector<double> k; double v = -1; for (int j = 0; j < nax[d] + (int)s.order[d] + 1; j++) { k.push_back(v); v += 0.5 + rng.unit(); } s.knots.push_back(k); }
		s.coeffs.resize(s.ncoeffs()); for (auto& c : s.coeffs) c = (float)rng.range(-4, 4);
		return s;
	}
	int n = dims[id % 8]; s.ndim = n; double per = std::pow((double)target[id % 8], 1.0 / n);
	for (int d = 0; d < n; d++) { int ord = (d + id) % 4; int nax = std::max(ord + 1, (int)per + d); std::vector<double> k; double v = -1; for (int j = 0; j < nax + ord + 1; j++) { k.push_back(v); v += 0.5 + rng.unit(); } s.order.push_back(ord); s.knots.push_back(k); }
	s.coeffs.resize(s.ncoeffs()); for (auto& c : s.coeffs) c = (float)rng.range(-4, 4);
	return s;
}
int main(int argc, char** argv) {
	if (argc < 4) return 2; std::string mode = argv[1]; int id = atoi(argv[2]); std::string path = argv[3];
	signal(SIGXFSZ, SIG_IGN);
	if (getenv("VERIF_FSIZE")) { struct rlimit rl; rl.rlim_cur = rl.rlim_max = (rlim_t)atol(getenv("VERIF_FSIZE")); setrlimit(RLIMIT_FSIZE, &rl); }
	Table t; PVA::build(t, catalogue(id), PAD_ZERO); t.write_key("TABLEID", id);
	// ids 8..15: the same shapes with 48 more keys - the primary header no longer fits the block reserved for it when the image
	// was created, so the writer has to move the data it has already written
	if (id >= 8) for (int k = 0; k < 48; k++) t.write_key((k % 3 ? "KEY" + std::to_string(100 + k) : "ALONGERKEYWORD" + std::to_string(100 + k)).c_str(), ("value number " + std::to_string(k)).c_str());
	if (mode == "write") {
		bool ok = true; std::string what;
		if (argc > 4 && std::string(argv[4]) == "c") { ::splinetable ct; ct.data = &t; ok = writesplinefitstable(path.c_str(), &ct) == 0; }
		else { try { t.write_fits(path); } catch (std::exception& e) { ok = false; what = e.what(); } }
		JW w; w.s("reported", ok ? "success" : "failure").s("what", what); w.emit(); return 0;
	}
	if (mode == "readback") {
		struct stat st; if (stat(path.c_str(), &st) != 0) { JW w; w.s("verdict", "missing"); w.emit(); return 0; }
		Table r; bool ok = true; try { r.read_fits(path); } catch (std::exception&) { ok = false; }
		std::string v = "reject";
		if (ok) {
			bool eq = r.get_ndim() == t.get_ndim() && r.get_ncoeffs() == t.get_ncoeffs() && !memcmp(r.get_coefficients(), t.get_coefficients(), 4 * t.get_ncoeffs());
			for (uint32_t d = 0; eq && d < t.get_ndim(); d++) eq = r.get_order(d) == t.get_order(d) && r.get_nknots(d) == t.get_nknots(d) && !memcmp(r.get_knots(d), t.get_knots(d), 8 * t.get_nknots(d));
			v = eq ? "equal" : "different";
		}
		JW w; w.s("verdict", v); w.emit(); return 0;
	}
	return 2;
}
