// A checking, counting allocator for splinetable<Alloc>: every block is recorded in a global registry with its
// byte size and the ledger (object) it belongs to; deallocation must name a live block with the size it was
// allocated with; the n-th allocation can be made to fail; live bytes and the peak are tracked per ledger.
#ifndef VERIF_COUNTING_ALLOC_H
#define VERIF_COUNTING_ALLOC_H
#include <map>
#include <vector>
#include <string>
#include <new>
#include <cstdlib>
#include <cstdint>

struct AllocLedger {
	long live_bytes = 0, live_blocks = 0, peak_bytes = 0, total_allocs = 0;
	std::vector<std::string> errors;      // double free, foreign block, wrong size
	std::vector<long> sizes;              // sequence of requested sizes (for drift reporting)
};
struct AllocRegistry {
	struct Blk { size_t bytes; int ledger; };
	std::map<void*, Blk> live;
	std::map<int, AllocLedger> ledgers;
	long fail_at = -1;                    // fail the allocation with this running number (counted from arm())
	long counter = 0;
	bool record_sizes = false;
	static AllocRegistry& get() { static AllocRegistry r; return r; }
	void arm(long k) { counter = 0; fail_at = k; }
	void disarm() { fail_at = -1; }
	void* alloc(size_t bytes, int ledger) {
		long me = counter++;
		if (fail_at >= 0 && me == fail_at) { fail_at = -1; throw std::bad_alloc(); }
		void* p = std::malloc(bytes ? bytes : 1);
		if (!p) throw std::bad_alloc();
		live[p] = Blk{bytes, ledger};
		AllocLedger& L = ledgers[ledger];
		L.live_bytes += (long)bytes; L.live_blocks++; L.total_allocs++;
		if (L.live_bytes > L.peak_bytes) L.peak_bytes = L.live_bytes;
		if (record_sizes) L.sizes.push_back((long)bytes);
		return p;
	}
	void dealloc(void* p, size_t bytes, int ledger) {
		if (!p) { if (bytes != 0) ledgers[ledger].errors.push_back("deallocate(nullptr, " + std::to_string(bytes) + ")"); return; }
		auto it = live.find(p);
		if (it == live.end()) { ledgers[ledger].errors.push_back("deallocate of a block that is not live (double free or foreign pointer), size " + std::to_string(bytes)); return; }
		AllocLedger& L = ledgers[it->second.ledger];
		if (it->second.bytes != bytes) L.errors.push_back("deallocate with size " + std::to_string(bytes) + " of a block allocated with size " + std::to_string(it->second.bytes));
		L.live_bytes -= (long)it->second.bytes; L.live_blocks--;
		live.erase(it);
		std::free(p);
	}
};

template <class T>
struct CountingAlloc {
	typedef T value_type;
	int ledger;
	CountingAlloc() : ledger(0) {}
	explicit CountingAlloc(int l) : ledger(l) {}
	template <class U> CountingAlloc(const CountingAlloc<U>& o) : ledger(o.ledger) {}
	template <class U> struct rebind { typedef CountingAlloc<U> other; };
	T* allocate(size_t n) { return (T*)AllocRegistry::get().alloc(n * sizeof(T), ledger); }
	void deallocate(T* p, size_t n) { AllocRegistry::get().dealloc((void*)p, n * sizeof(T), ledger); }
	template <class U> bool operator==(const CountingAlloc<U>& o) const { return ledger == o.ledger; }
	template <class U> bool operator!=(const CountingAlloc<U>& o) const { return ledger != o.ledger; }
};
template <>
struct CountingAlloc<void> {
	typedef void value_type;
	int ledger;
	CountingAlloc() : ledger(0) {}
	explicit CountingAlloc(int l) : ledger(l) {}
	template <class U> CountingAlloc(const CountingAlloc<U>& o) : ledger(o.ledger) {}
	template <class U> struct rebind { typedef CountingAlloc<U> other; };
};
#endif
