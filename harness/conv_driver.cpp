// C14: convolve / splinetable_convolve against the exact values of spec/MC_Conv.tla.
//   conv_driver <cases.ndjson> <seed> <out.ndjson>
#include "evalapi.h"
#include <fstream>
typedef long double LD;
static double rd(const JV& r) { return (double)r[0].integer() / (double)r[1].integer(); }
int main(int argc, char** argv) {
	if (argc < 4) return 2; std::ifstream f(argv[1]); Rng rng(strtoull(argv[2], 0, 10)); FILE* out = fopen(argv[3], "w"); std::string line; long nc = 0;
	while (std::getline(f, line)) {
		if (line.empty()) continue; JV j = jparse(line); int n = (int)j["n"].integer(); std::vector<double> t = j["t"].nums(), tau; for (auto& r : j["tau"].a) tau.push_back(rd(r));
		std::vector<float> c; for (auto v : j["c"].ints()) c.push_back((float)v); std::vector<double> rho; for (auto& r : j["knots"].a) rho.push_back(rd(r));
		int worder = (int)j["order"].integer(); double cmax = 0; for (float v : c) cmax = std::max(cmax, (double)std::fabs(v));
		// layouts: the convolved dimension alone, or as dimension `pos` of a separable 2-D / 3-D table
		// (layout 4 rotates with the case number through the positions where a dimension other than 0 or 1 is convolved:
		// dimension 2 of a 3-D table, dimensions 2 and 3 of a 4-D table)
		static const int LND[] = {1, 2, 2, 3, 0}, LPOS[] = {0, 0, 1, 1, 0}, XND[] = {3, 4, 4}, XPOS[] = {2, 2, 3};
		// Affine images of the case: source knots s*t + a, kernel knots s*tau + b.  The convolved surface is the same function of
		// (x - a - b)/s, so the exact values of the lattice case are the oracle, while the knot sums are no longer exactly
		// representable (0.1 spacing, thirds, an irrational scale with a large offset): coincident sums differ in the last bit.
		static const double AFF[][3] = {{1, 0, 0}, {0.1, 0, 0}, {1.0 / 3.0, 0.7, -0.3}, {3.14159265358979, 1000.1, 0.001}};
		const std::vector<double> t0 = t, tau0 = tau, rho0 = rho;
		for (int aff = 0; aff < 4; aff++)
		for (int layout = 0; layout < 5; layout++) {
			if (aff && layout != 0 && layout != 1 + (int)((nc + aff) % 4)) continue;
			const double sc = AFF[aff][0], sa = AFF[aff][1], sb = AFF[aff][2];
			if (aff) {
				for (size_t q = 0; q < t.size(); q++) t[q] = sc * t0[q] + sa;
				for (size_t q = 0; q < tau.size(); q++) tau[q] = sc * tau0[q] + sb;
				rho.clear(); for (double a : t) for (double b : tau) rho.push_back(a + b); std::sort(rho.begin(), rho.end());
			} else { t = t0; tau = tau0; rho = rho0; }
			int nd = layout < 4 ? LND[layout] : XND[nc % 3]; int pos = layout < 4 ? LPOS[layout] : XPOS[nc % 3];
			TableSpec s; s.ndim = nd; std::vector<std::vector<float>> fac(nd); std::vector<std::vector<double>> okn(nd); std::vector<int> oord(nd);
			for (int d = 0; d < nd; d++) {
				if (d == pos) { s.order.push_back(n); s.knots.push_back(t); fac[d] = c; }
				else { int o = 1 + d % 2; std::vector<double> k; for (int q = 0; q < 2 * o + 3 + d; q++) k.push_back(-1.0 + 0.75 * q); s.order.push_back(o); s.knots.push_back(k); fac[d].resize(k.size() - o - 1); for (auto& v : fac[d]) v = (float)(1 + (int)rng.below(3)); }
				okn[d] = s.knots[d]; oord[d] = s.order[d];
			}
			auto nax = s.naxes(); s.coeffs.resize(s.ncoeffs());
			for (size_t idx = 0; idx < s.coeffs.size(); idx++) { size_t q = idx; float v = 1; for (int d = nd - 1; d >= 0; d--) { v *= fac[d][q % nax[d]]; q /= nax[d]; } s.coeffs[idx] = v; }
			for (int api = 0; api < 2; api++) {
				Table tb; PVA::build(tb, s, PAD_NAN); bool ok = true; std::string err;
				// the factors of the other dimensions, evaluated before convolving (1-D tables of their own)
				try { if (api == 0) tb.convolve(pos, tau.data(), tau.size()); else { ::splinetable ct; ct.data = &tb; ok = splinetable_convolve(&ct, pos, tau.data(), tau.size()) == 0; } }
				catch (std::exception& e) { ok = false; err = e.what(); }
				bool meta = ok && tb.get_ndim() == (uint32_t)nd && (int)tb.get_order(pos) == worder && tb.get_nknots(pos) == rho.size() && tb.get_ncoeffs(pos) == rho.size() - worder - 1;
				if (meta) for (size_t k = 0; k < rho.size(); k++) meta = meta && tb.get_knot(pos, k) == rho[k];
				for (int d = 0; meta && d < nd; d++) if (d != pos) { meta = (int)tb.get_order(d) == oord[d] && tb.get_nknots(d) == okn[d].size(); for (size_t k = 0; meta && k < okn[d].size(); k++) meta = tb.get_knot(d, k) == okn[d][k]; }
				uint64_t expect_nc = 1; for (int d = 0; meta && d < nd; d++) expect_nc *= tb.get_ncoeffs(d);
				bool strides = meta; if (meta) { uint64_t st = 1; for (int d = nd - 1; d >= 0; d--) { strides = strides && tb.get_stride(d) == st; st *= tb.get_ncoeffs(d); } }
				long bad = 0, total = 0; double worst = 0; std::string example;
				if (meta) {
					for (auto& p : j["pts"].o) (void)p;
					const JV& pts = j["pts"];
					// pts is a JSON object keyed by the string form of the point when emitted as a TLA+ function; handle both encodings
					std::vector<std::pair<double, double>> pv;
					if (pts.t == JV::ARR) for (auto& e : pts.a) pv.push_back({rd(e[0]), rd(e[1])});
					for (auto& xv : pv) {
						// a convolved knot field whose fully supported range has zero width cannot be evaluated at that one point (C01 known finding): not convolution's business
						{ size_t na = rho0.size() - worder - 1; if (xv.first == rho0[na] && rho0[worder] == rho0[na]) continue; }
						// the image of a point at the very ends of the knot range may round to just outside it
						if (aff && (xv.first <= rho0.front() || xv.first >= rho0.back())) continue;
						for (int rep = 0; rep < (nd == 1 ? 1 : 2); rep++) {
							std::vector<double> x(nd); LD other = 1;
							for (int d = 0; d < nd; d++) { if (d == pos) { x[d] = aff ? sc * xv.first + sa + sb : xv.first; continue; } double lo = okn[d][oord[d]], hi = okn[d][okn[d].size() - oord[d] - 1]; x[d] = lo + (hi - lo) * (0.1 + 0.8 * rng.unit());
								TableSpec s1; s1.ndim = 1; s1.order = {(uint32_t)oord[d]}; s1.knots = {okn[d]}; s1.coeffs = fac[d]; Table t1; PVA::build(t1, s1, PAD_NAN); int c1; double xx = x[d]; t1.searchcenters(&xx, &c1); other *= t1.ndsplineeval<double>(&xx, &c1, 0); }
							std::vector<int> cen(nd); total++;
							if (!tb.searchcenters(x.data(), cen.data())) { bad++; if (example.empty()) example = "lookup failed inside the convolved knot range at x=" + std::to_string(xv.first); continue; }
							double got = tb.ndsplineeval<double>(x.data(), cen.data(), 0); LD want = (LD)xv.second * other;
							LD tol = 4e-5L * (1 + cmax) * (1 + worder) * (1 + worder) * std::max<LD>(1, fabsl(other));
							LD e = fabsl((LD)got - want); if (!(e <= tol)) { bad++; if (example.empty()) example = "x=" + std::to_string(x[pos]) + " got " + std::to_string(got) + " want " + std::to_string((double)want); } else worst = std::max(worst, (double)(e / tol));
						}
					}
				}
				JW w; w.i("case", nc).i("n", n).i("ntau", (long)tau.size()).i("layout", layout).i("affine", aff).s("api", api ? "c" : "cxx").b("completed", ok).s("err", err).b("meta_ok", meta).b("strides_ok", strides).i("points", total).i("bad", bad).d("worst", worst).s("example", example);
				w.emit(out);
			}
		}
		nc++;
	}
	fclose(out); printf("{\"cases\":%ld}\n", nc); return 0;
}
