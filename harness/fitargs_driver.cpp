// C13: instantiates every argument-class combination of spec/FitArgs.tla concretely and calls fit (on an empty and on a
// populated table) and splinetable_glamfit in forked ASan children; logs outcome + whether the table was left unchanged.
//   fitargs_driver <combos.ndjson> <seed> <out.ndjson>
#include "evalapi.h"
#include <fstream>

struct Args {
	size_t rows; int ndim; std::vector<std::vector<unsigned>> idx; std::vector<unsigned> ranges; std::vector<double> values;
	std::vector<double> weights; std::vector<std::vector<double>> coords, knots; std::vector<uint32_t> order, pen; std::vector<double> smooth; uint32_t monodim;
};
static Args make(const JV& c, int n, Rng& rng) {
	Args a; a.ndim = n; const int ord[3] = {2, 1, 2};
	std::vector<unsigned> g(n); size_t rows = 1; for (int d = 0; d < n; d++) { g[d] = 6 + d; rows *= g[d]; }
	a.rows = rows; a.ranges = g; a.idx.assign(n, std::vector<unsigned>(rows));
	for (size_t r = 0; r < rows; r++) { size_t q = r; for (int d = n - 1; d >= 0; d--) { a.idx[d][r] = (unsigned)(q % g[d]); q /= g[d]; } a.values.push_back(std::sin(0.3 * r) + 0.1 * rng.unit()); }
	a.weights.assign(rows, 1.0);
	for (int d = 0; d < n; d++) { std::vector<double> x; for (unsigned j = 0; j < g[d]; j++) x.push_back(j); a.coords.push_back(x); std::vector<double> k; for (int j = -ord[d]; j <= (int)g[d] + ord[d]; j++) k.push_back(j - 0.5); a.knots.push_back(k); a.order.push_back(ord[d]); }
	a.smooth = {1e-3}; a.pen = {1}; a.monodim = Table::no_monodim;
	auto cls = [&](const char* k) { return c[k].str(); };
	if (cls("weights") == "short") a.weights.pop_back(); else if (cls("weights") == "long") a.weights.push_back(1.0); else if (cls("weights") == "empty") a.weights.clear();
	if (cls("ncoord") == "less") a.coords.pop_back(); else if (cls("ncoord") == "more") a.coords.push_back(a.coords[0]);
	if (cls("coordlen") == "short" && !a.coords.empty()) { a.coords.back().resize(a.coords.back().size() - 2); a.coords.back().shrink_to_fit(); }
	if (cls("index") == "atrange") a.idx[0][rows / 2] = g[0];
	if (cls("norder") == "less") a.order.pop_back(); else if (cls("norder") == "more") a.order.push_back(2);
	if (cls("nknotv") == "less") a.knots.pop_back(); else if (cls("nknotv") == "more") a.knots.push_back(a.knots[0]);
	if (!a.knots.empty()) {
		if (cls("knots") == "unsorted") std::swap(a.knots[0][2], a.knots[0][5]);
		else if (cls("knots") == "toofew") { a.knots[0].resize(ord[0] + 1); a.knots[0].shrink_to_fit(); }
		else if (cls("knots") == "few") { a.knots[0].resize(2 * ord[0] + 1); a.knots[0].shrink_to_fit(); }
	}
	if (cls("nsmooth") == "ndim") a.smooth.assign(n, 1e-3); else if (cls("nsmooth") == "other") a.smooth.assign(n == 1 ? 3 : n + 1, 1e-3); else if (cls("nsmooth") == "empty") { a.smooth.clear(); a.smooth.shrink_to_fit(); }
	if (c.has("smoothval") && !a.smooth.empty()) { const std::string sv = cls("smoothval"); double v = sv == "zero" ? 0.0 : sv == "neg" ? -1e-3 : sv == "neginf" ? -INFINITY : sv == "nan" ? std::numeric_limits<double>::quiet_NaN() : 1e-3; a.smooth[0] = v; if (a.smooth.size() > 1 && rng.below(2)) a.smooth.back() = v; }
	if (cls("npen") == "ndim") a.pen.assign(n, 1); else if (cls("npen") == "other") a.pen.assign(n == 1 ? 3 : n + 1, 1); else if (cls("npen") == "empty") { a.pen.clear(); a.pen.shrink_to_fit(); }
	if (!a.pen.empty()) { if (cls("penorder") == "above") a.pen[0] = ord[0] + 1 + (uint32_t)rng.below(3); else if (cls("penorder") == "huge") a.pen[0] = 0xFFFFFFFFu; }
	if (c.has("order") && !a.order.empty()) { if (cls("order") == "huge31") a.order[0] = 0x7FFFFFFFu; else if (cls("order") == "huge32") a.order[0] = 0xFFFFFFFFu; else if (cls("order") == "wrap") a.order[0] = 0x80000003u; }
	if (cls("monodim") == "valid") a.monodim = 0; else if (cls("monodim") == "ndim") a.monodim = n; else if (cls("monodim") == "huge") a.monodim = 1000000;
	return a;
}
static std::string mf_hex(uint64_t h) { char b[20]; snprintf(b, 20, "%016llx", (unsigned long long)h); return b; }
static void fill(::ndsparse& d, const Args& a) {
	ndsparse_allocate(&d, a.rows, a.ndim);
	for (size_t r = 0; r < a.rows; r++) { d.x[r] = a.values[r]; for (int k = 0; k < a.ndim; k++) d.i[k][r] = a.idx[k][r]; }
	for (int k = 0; k < a.ndim; k++) d.ranges[k] = a.ranges[k];
}
static std::string digest(const Table& t) {
	if (t.get_ndim() == 0) return PVA::all_null(t) ? "empty" : "dirty-empty";
	uint64_t h = 1469598103934665603ull; auto mix = [&](const void* p, size_t n) { const unsigned char* c = (const unsigned char*)p; for (size_t i = 0; i < n; i++) { h ^= c[i]; h *= 1099511628211ull; } };
	for (uint32_t d = 0; d < t.get_ndim(); d++) { uint32_t o = t.get_order(d); mix(&o, 4); mix(t.get_knots(d), 8 * t.get_nknots(d)); }
	mix(t.get_coefficients(), 4 * t.get_ncoeffs()); return mf_hex(h);
}
static std::string run_one(const JV& combo, int n, int api, uint64_t seed) {
	Rng rng(seed); Args a = make(combo, n, rng); ::ndsparse data; fill(data, a);
	Table t;
	if (api == 1) { TableSpec s; s.ndim = 1; s.order = {1}; s.knots = {{0, 1, 2, 3, 4}}; s.coeffs = {1, 2, 3}; PVA::build(t, s, PAD_ZERO); }
	std::string before = digest(t), outcome; long c_ret = -1;
	setenv("OMP_NUM_THREADS", "2", 1);
	if (api == 2) {
		::splinetable ct; ct.data = &t; std::vector<const double*> cp, kp; std::vector<uint64_t> nk;
		for (auto& v : a.coords) cp.push_back(v.data()); for (auto& v : a.knots) { kp.push_back(v.data()); nk.push_back(v.size()); }
		std::vector<double> sm(n, a.smooth[0]); std::vector<uint32_t> pn(n, a.pen[0]);
		c_ret = splinetable_glamfit(&ct, &data, a.weights.data(), cp.data(), a.order.data(), kp.data(), nk.data(), sm.data(), pn.data(), a.monodim, false);
		outcome = c_ret == 0 ? "complete" : "reject";
	} else {
		try { t.fit(data, a.weights, a.coords, a.order, a.knots, a.smooth, a.pen, a.monodim, false); outcome = "complete"; }
		catch (std::exception&) { outcome = "reject"; }
	}
	if (outcome == "complete" && combo["penorder"].str() != "ok") {
		Table u; std::vector<double> zero(a.smooth.size(), 0.0); bool ok = true;
		try { std::vector<uint32_t> p1(a.pen.size(), 1); u.fit(data, a.weights, a.coords, a.order, a.knots, zero, p1, a.monodim, false); } catch (std::exception&) { ok = false; }
		if (ok && u.get_ncoeffs() == t.get_ncoeffs()) { double md = 0, mx = 0; for (uint64_t i = 0; i < t.get_ncoeffs(); i++) { md = std::max(md, (double)std::fabs(t.get_coefficients()[i] - u.get_coefficients()[i])); mx = std::max(mx, (double)std::fabs(u.get_coefficients()[i])); } if (md <= 1e-4 * (1 + mx)) outcome = "complete-unpenalised"; }
	}
	if (outcome != "reject" && t.get_ndim()) {   // a completed fit must have produced a usable table
		std::vector<double> x(t.get_ndim()); for (uint32_t d = 0; d < t.get_ndim(); d++) x[d] = 0.5 * (t.get_knot(d, 0) + t.get_knot(d, t.get_nknots(d) - 1));
		volatile double v = t(x.data()); (void)v; auto b = t.write_fits_mem(); free(b.first);
	}
	std::string after = digest(t);
	ndsparse_free(&data);
	std::ostringstream o; o << "\"outcome\":\"" << outcome << "\",\"unchanged\":" << (after == before ? "true" : "false") << ",\"c_ret\":" << c_ret;
	return o.str();
}

int main(int argc, char** argv) {
	if (argc < 4) return 2;
	std::ifstream f(argv[1]); uint64_t seed = strtoull(argv[2], 0, 10); FILE* out = fopen(argv[3], "w"); std::string line; long n = 0;
	while (std::getline(f, line)) {
		if (line.empty()) continue; JV c = jparse(line); int nd = (int)c["ndim"].integer(); const JV& combo = c["combo"];
		bool c_expressible = combo["weights"].str() == "ok" && combo["ncoord"].str() == "ok" && combo["coordlen"].str() == "ok" && combo["norder"].str() == "ok" && combo["nknotv"].str() == "ok"
		                     && combo["nsmooth"].str() != "other" && combo["npen"].str() != "other" && combo["nsmooth"].str() != "empty" && combo["npen"].str() != "empty";
		for (int api = 0; api < 3; api++) {
			if (api == 2 && !c_expressible) continue;
			std::string detail;
			std::string v = in_child([&]() -> std::string { alarm(90); return run_one(combo, nd, api, seed + n); }, 120, &detail);
			std::string body = v == "ok" ? detail.substr(0, detail.find("\n[stderr]")) : "\"outcome\":\"" + JW::esc(v) + "\",\"unchanged\":true,\"c_ret\":-1";
			std::string cj = line.substr(line.find("\"combo\":") + 8); cj = cj.substr(0, cj.find('}') + 1);
			fprintf(out, "{\"api\":\"%s\",\"ndim\":%d,\"combo\":%s,%s,\"detail\":\"%s\"}\n", api == 2 ? "c" : (api == 1 ? "cxx-populated" : "cxx"), nd, cj.c_str(), body.c_str(), v == "ok" ? "" : JW::esc(detail.substr(0, 700)).c_str());
			n++;
		}
	}
	fclose(out); printf("{\"calls\":%ld}\n", n); return 0;
}
