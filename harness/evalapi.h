// every evaluation entry point of the library behind one numbered interface, so that the
// drivers of C01/C02/C03/C05 exercise exactly the same set of paths.
#ifndef VERIF_EVALAPI_H
#define VERIF_EVALAPI_H
#include "pst.h"
#include <photospline/cinter/splinetable.h>

typedef photospline::splinetable<> Table;

struct EvalPaths {
	const Table& t;
	Table::evaluator_type<float> ef;
	Table::evaluator_type<double> ed;
	::splinetable ct;
	explicit EvalPaths(const Table& tb) : t(tb), ef(tb.get_evaluator<float>()), ed(tb.get_evaluator<double>()) { ct.data = (void*)&tb; }

	// ---- value / bitmask derivative paths; precision 'f' or 'd'
	static const int NVAL = 5;
	static const char* valname(int p) {
		static const char* n[] = {"member<float>", "member<double>", "evaluator<float>", "evaluator<double>", "C.ndsplineeval"};
		return n[p];
	}
	static char valprec(int p) { return (p == 1 || p == 3) ? 'd' : 'f'; }
	double val(int p, const double* x, const int* c, int mask) const {
		switch (p) {
			case 0: return t.ndsplineeval<float>(x, c, mask);
			case 1: return t.ndsplineeval<double>(x, c, mask);
			case 2: return ef.ndsplineeval(x, c, mask);
			case 3: return ed.ndsplineeval(x, c, mask);
			default: return ::ndsplineeval(&ct, x, c, mask);
		}
	}
	// ---- call operators (do their own center lookup)
	static const int NCALL = 3;
	static const char* callname(int p) { static const char* n[] = {"table()", "evaluator<float>()", "evaluator<double>()"}; return n[p]; }
	static char callprec(int p) { return p == 2 ? 'd' : 'f'; }
	double call(int p, const double* x) const {
		switch (p) { case 0: return t(x); case 1: return ef(x); default: return ed(x); }
	}
	// ---- gradient paths: out[ndim+1]
	static const int NGRAD = 5;
	static const char* gradname(int p) {
		static const char* n[] = {"member_gradient<float>", "member_gradient<double>", "evaluator_gradient<float>", "evaluator_gradient<double>", "C.ndsplineeval_gradient"};
		return n[p];
	}
	static char gradprec(int p) { return (p == 1 || p == 3) ? 'd' : 'f'; }
	void grad(int p, const double* x, const int* c, double* out) const {
		switch (p) {
			case 0: t.ndsplineeval_gradient<float>(x, c, out); break;
			case 1: t.ndsplineeval_gradient<double>(x, c, out); break;
			case 2: ef.ndsplineeval_gradient(x, c, out); break;
			case 3: ed.ndsplineeval_gradient(x, c, out); break;
			default: ::ndsplineeval_gradient(&ct, x, c, out);
		}
	}
	// ---- arbitrary-order derivative paths
	static const int NDER = 4;
	static const char* dername(int p) { static const char* n[] = {"member_deriv", "evaluator_deriv<float>", "evaluator_deriv<double>", "C.ndsplineeval_deriv"}; return n[p]; }
	static char derprec(int p) { return p == 2 ? 'd' : 'f'; }
	double der(int p, const double* x, const int* c, const unsigned* d) const {
		switch (p) {
			case 0: return t.ndsplineeval_deriv(x, c, d);
			case 1: return ef.ndsplineeval_deriv(x, c, d);
			case 2: return ed.ndsplineeval_deriv(x, c, d);
			default: return ::ndsplineeval_deriv(&ct, x, c, d);
		}
	}
	// ---- center lookup paths
	static const int NSC = 3;
	static const char* scname(int p) { static const char* n[] = {"table.searchcenters", "evaluator.searchcenters", "C.tablesearchcenters"}; return n[p]; }
	bool sc(int p, const double* x, int* c) const {
		switch (p) { case 0: return t.searchcenters(x, c); case 1: return ef.searchcenters(x, c); default: return ::tablesearchcenters(&ct, x, c) != 0; }
	}
};

// deterministic generator (splitmix64) so that every run is reproducible from VERIF_SEED
struct Rng {
	uint64_t s;
	explicit Rng(uint64_t seed) : s(seed * 0x9E3779B97F4A7C15ull + 0x1234567ull) {}
	uint64_t next() { uint64_t z = (s += 0x9E3779B97F4A7C15ull); z = (z ^ (z >> 30)) * 0xBF58476D1CE4E5B9ull; z = (z ^ (z >> 27)) * 0x94D049BB133111EBull; return z ^ (z >> 31); }
	uint64_t below(uint64_t n) { return next() % n; }
	double unit() { return (next() >> 11) * (1.0 / 9007199254740992.0); }
	double range(double a, double b) { return a + (b - a) * unit(); }
};

#endif
