/* Force-included (-include) when the harness compiles src/fitter/cholesky_solve.c for property C12:
 * routes the pthread calls of walk_descents/evaluate_descent, and the one heavy call inside
 * calc_residual, through the scheduler/recorder in c12_driver.cpp.  No file under /repo changes. */
#ifndef VERIF_PTHREAD_SHIM_H
#define VERIF_PTHREAD_SHIM_H
#define _GNU_SOURCE 1
#include <pthread.h>
#include <sched.h>
#include <cholmod.h>
#ifdef __cplusplus
extern "C" {
#endif
int vs_mutex_lock(pthread_mutex_t*);
int vs_mutex_unlock(pthread_mutex_t*);
int vs_cond_wait(pthread_cond_t*, pthread_mutex_t*);
int vs_cond_broadcast(pthread_cond_t*);
int vs_create(pthread_t*, const pthread_attr_t*, void* (*)(void*), void*);
int vs_join(pthread_t, void**);
void vs_exit(void*) __attribute__((noreturn));
int vs_sdmult(cholmod_sparse*, int, double*, double*, cholmod_dense*, cholmod_dense*, cholmod_common*);
#ifdef __cplusplus
}
#endif
#ifndef VERIF_SHIM_IMPL
#define pthread_mutex_lock vs_mutex_lock
#define pthread_mutex_unlock vs_mutex_unlock
#define pthread_cond_wait vs_cond_wait
#define pthread_cond_broadcast vs_cond_broadcast
#define pthread_create(a, b, c, d) vs_create(a, b, (void* (*)(void*))(c), d)
#define pthread_join vs_join
#define pthread_exit vs_exit
#define cholmod_l_sdmult vs_sdmult
#define sched_setaffinity(a, b, c) 0
#endif
#endif
