// C17: splinetable::grideval / splinetable_grideval against the exact grid values emitted by spec/MC_Grid.tla, and
// against pointwise evaluation.   grid_driver <cases.ndjson> <out.ndjson>
#include "evalapi.h"
#include <fstream>
typedef long double LD;
int main(int argc, char** argv) {
	if (argc < 3) return 2; std::ifstream f(argv[1]); FILE* out = fopen(argv[2], "w"); std::string line; long nc = 0, npts = 0;
	while (std::getline(f, line)) {
		if (line.empty()) continue; JV j = jparse(line); TableSpec s; for (auto v : j["order"].ints()) s.order.push_back((uint32_t)v); s.ndim = (uint32_t)s.order.size();
		for (auto& k : j["knots"].a) s.knots.push_back(k.nums()); for (auto v : j["coef"].ints()) s.coeffs.push_back((float)v);
		std::vector<std::vector<double>> coords; for (auto& c : j["coords"].a) { std::vector<double> v; for (auto& r : c.a) v.push_back((double)r[0].integer() / (double)r[1].integer()); coords.push_back(v); }
		// the same table with all coefficients multiplied by a power of two: every value scales exactly, so the oracle does too
		// (a grid value is whatever pointwise evaluation gives, however small in absolute terms)
		static const int SCALE[] = {0, -40, -70, -100, 40};
		const std::vector<float> coef0 = s.coeffs; uint32_t nd = s.ndim;
		for (int sci = 0; sci < 5; sci++) {
		const LD scale = ldexpl(1, SCALE[sci]); s.coeffs = coef0; for (auto& c : s.coeffs) c = std::ldexp(c, SCALE[sci]);
		Table t; PVA::build(t, s, PAD_NAN);
		for (int api = 0; api < (sci == 0 ? 2 : 1 + (int)((nc + sci) % 2)); api++) {
			std::map<std::vector<unsigned>, double> listed; std::vector<unsigned> ranges(nd, 0); bool ok = true; std::string err; bool dup = false;
			try {
				if (api == 0) { auto r = t.grideval(coords); for (size_t k = 0; k < r->rows; k++) { std::vector<unsigned> id(nd); for (uint32_t d = 0; d < nd; d++) id[d] = r->i[d][k]; if (listed.count(id)) dup = true; listed[id] += r->x[k]; } for (uint32_t d = 0; d < nd; d++) ranges[d] = r->ranges[d]; }
				else { ::splinetable ct; ct.data = &t; std::vector<const double*> cp; std::vector<uint32_t> nc2; for (auto& v : coords) { cp.push_back(v.data()); nc2.push_back((uint32_t)v.size()); } ::ndsparse* r = nullptr;
					if (splinetable_grideval(&ct, cp.data(), nc2.data(), &r) != 0 || !r) { ok = false; err = "C wrapper failed"; }
					else { for (size_t k = 0; k < r->rows; k++) { std::vector<unsigned> id(nd); for (uint32_t d = 0; d < nd; d++) id[d] = r->i[d][k]; if (listed.count(id)) dup = true; listed[id] += r->x[k]; } for (uint32_t d = 0; d < nd; d++) ranges[d] = r->ranges[d]; ndsparse_destroy(r); } }
			} catch (std::exception& e) { ok = false; err = e.what(); }
			long bad_value = 0, missing = 0, bad_pointwise = 0, inside = 0; std::string example;
			LD cabs = 0; for (float c : s.coeffs) cabs += fabsl(c);
			for (auto& e : j["entries"].a) {
				if (!e["inside"].b) continue; inside++; npts++;
				std::vector<unsigned> id; for (auto v : e["idx"].ints()) id.push_back((unsigned)v);
				LD want = scale * (LD)e["val"][0].integer() / (LD)e["val"][1].integer(); LD tol = 64 * ldexpl(1, -53) * (cabs + scale) * 16;
				auto it = listed.find(id);
				if (it == listed.end()) { if (fabsl(want) > tol) { missing++; if (example.empty()) example = "unlisted interior point with value " + std::to_string((double)(want / scale)) + " * 2^" + std::to_string(SCALE[sci]); } }
				else if (!(fabsl((LD)it->second - want) <= tol)) { bad_value++; if (example.empty()) example = "listed " + std::to_string((double)(it->second / scale)) + " expected " + std::to_string((double)(want / scale)) + " (* 2^" + std::to_string(SCALE[sci]) + ")"; }
				// pointwise evaluation of the same point (single precision path)
				std::vector<double> x(nd); std::vector<int> c(nd); for (uint32_t d = 0; d < nd; d++) x[d] = coords[d][id[d]];
				if (t.searchcenters(x.data(), c.data())) { double pv = t.ndsplineeval<double>(x.data(), c.data(), 0); double gv = it == listed.end() ? 0.0 : it->second; if (!(std::fabs(pv - gv) <= (double)tol)) bad_pointwise++; }
			}
			bool ranges_ok = ok; for (uint32_t d = 0; ok && d < nd; d++) ranges_ok = ranges_ok && ranges[d] == coords[d].size();
			JW w; w.s("api", api ? "c" : "cxx").i("case", nc).i("log2scale", SCALE[sci]).b("completed", ok).s("err", err).i("inside", inside).i("bad_value", bad_value).i("missing", missing).i("bad_pointwise", bad_pointwise).b("ranges_ok", ranges_ok).b("duplicate_entries", dup).s("example", example).i("ndim", nd);
			w.emit(out);
		}
		}
		nc++;
	}
	fclose(out); printf("{\"cases\":%ld,\"points\":%ld}\n", nc, npts); return 0;
}
