// Beyond the listed properties: splinetable::sample (detail/sample.h) against spec/Sample.tla.
// The sampler's collaborators are template parameters, so they are scripted: the proposal distribution hands out a
// scripted sequence of lattice points, the random number generator a scripted sequence of uniforms k/8191; every call the
// sampler makes to them is logged in order (one record per action of Sample.tla) and Trace_Sample replays the log.
//   sample_driver <config 0..11> <runs> <seed> <out.ndjson>
// The first record describes the configuration: every position with what the driver computed for it independently of
// sample(): usable (inside the extents of the sampled dimensions and inside the knot range), the transformed density
// (an exact dyadic rational; order <= 1, integer knots, quarter-integer points, small integer coefficients) and the
// proposal density.
#include "evalapi.h"
#include <array>
#include <random>
#include <photospline/detail/sample.h>

struct Pos { std::vector<double> s; bool usable; long dn, dd; int dsign; long pn; };
struct Shared {
	FILE* out; std::vector<Pos> pos; std::vector<int> script; size_t at = 0; std::vector<int> uscript; size_t uat = 0;
	long nT = 0; bool xok = true; std::vector<double> fixed; std::vector<size_t> dims; bool exhausted = false;
	int find(const double* s, size_t n) const { for (size_t i = 0; i < pos.size(); i++) { bool eq = true; for (size_t d = 0; d < n; d++) eq = eq && pos[i].s[d] == s[d]; if (eq) return (int)i + 1; } return 0; }
};
struct ScriptExhausted {};
template <size_t N> struct ScriptDist {
	Shared* sh;
	template <class RNG> std::array<double, N> sample(RNG&) const {
		if (sh->at >= sh->script.size()) { sh->exhausted = true; throw ScriptExhausted(); }
		int id = sh->script[sh->at++]; std::array<double, N> a; for (size_t d = 0; d < N; d++) a[d] = sh->pos[id - 1].s[d];
		fprintf(sh->out, "{\"e\":\"S\",\"p\":%d}\n", id); return a;
	}
	double operator()(const std::array<double, N>& a) const {
		int id = sh->find(a.data(), N); fprintf(sh->out, "{\"e\":\"P\",\"p\":%d}\n", id);
		return id ? sh->pos[id - 1].pn / 2.0 : 1.0;
	}
};
struct ScriptRng {
	typedef uint64_t result_type; Shared* sh;
	static constexpr result_type min() { return 0; } static constexpr result_type max() { return ~(uint64_t)0; }
	result_type operator()() {
		if (sh->uat >= sh->uscript.size()) { sh->exhausted = true; throw ScriptExhausted(); }
		// u = k/8191: a prime no density or proposal ratio of the configurations contains, so the exact odds never equal the uniform
		int k = sh->uscript[sh->uat++]; fprintf(sh->out, "{\"e\":\"U\",\"u\":[%d,8191]}\n", k); return (uint64_t)((((unsigned __int128)k) << 64) / 8191);
	}
};
static double transform_of(int kind, const std::vector<double>& x, double pdf) {
	switch (kind) { case 1: return pdf * pdf; case 2: return pdf + 0.25 * x[0]; default: return pdf; }
}
struct LogTransform {
	Shared* sh; int kind;
	double operator()(const std::vector<double>& x, double pdf) const {
		sh->nT++;
		// the full coordinate vector: the caller's coordinates, with the sampled dimensions replaced by a position of the lattice
		std::vector<double> s(sh->dims.size()); for (size_t i = 0; i < sh->dims.size(); i++) s[i] = x[sh->dims[i]];
		bool ok = x.size() == sh->fixed.size() && sh->find(s.data(), s.size()) != 0;
		for (size_t d = 0; ok && d < x.size(); d++) { bool sampled = false; for (size_t q : sh->dims) sampled = sampled || q == d; if (!sampled) ok = x[d] == sh->fixed[d]; }
		sh->xok = sh->xok && ok;
		return transform_of(kind, x, pdf);
	}
};

template <size_t N> static void run_config(int cfg, long runs, uint64_t seed, FILE* out) {
	Rng rng(seed * 1000 + cfg);
	// configuration: which dimensions are sampled, extents, derivative mask, transform, coefficient set
	const int tkind = cfg % 3; const int deriv = (cfg / 3) % 2 ? 1 : 0; const bool wide = (cfg / 6) % 2;
	TableSpec s; s.ndim = 2; s.order = {1, 1}; s.knots = {{0, 1, 2, 3, 4, 5}, {0, 1, 2, 3, 4}};
	static const float C[2][12] = {{1, 2, 0, 3, 0, 0, 1, 2, 4, 1, 0, 2}, {2, -1, 0, 1, 0, 3, -2, 0, 1, 1, 2, 0}};
	s.coeffs.assign(C[(cfg / 2) % 2], C[(cfg / 2) % 2] + 12);
	// extents inside the knot range, or wider than it (then a point can be inside the extents and still fail the lookup)
	s.extents = wide ? std::vector<double>{-0.5, 5.5, -0.75, 4.25} : std::vector<double>{0.5, 4.5, 0.25, 3.5};
	Table t; PVA::build(t, s, PAD_NAN);
	Shared sh; sh.out = out; sh.fixed = {2.5, 1.75};
	std::array<size_t, N> dims; if (N == 2) { dims[0] = 1; dims[N - 1] = 0; } else dims[0] = cfg % 2;
	for (size_t i = 0; i < N; i++) sh.dims.push_back(dims[i]);
	// the lattice of positions: quarter steps from -1 to 6 in every sampled dimension (a coarser lattice in two dimensions)
	std::vector<std::vector<double>> axes(N);
	for (size_t i = 0; i < N; i++) for (double v = -1; v <= 6; v += (N == 2 ? 0.75 : 0.25)) axes[i].push_back(v);
	std::vector<size_t> idx(N, 0);
	for (;;) {
		Pos p; for (size_t i = 0; i < N; i++) p.s.push_back(axes[i][idx[i]]);
		std::vector<double> x = sh.fixed; bool inext = true, inrange = true;
		for (size_t i = 0; i < N; i++) { size_t d = dims[i]; x[d] = p.s[i]; inext = inext && p.s[i] >= t.lower_extent(d) && p.s[i] <= t.upper_extent(d); inrange = inrange && p.s[i] > s.knots[d].front() && p.s[i] <= s.knots[d].back(); }
		p.usable = inext && inrange; p.dn = 0; p.dd = 1; p.dsign = 1;
		if (p.usable) {
			std::vector<int> c(2); if (!t.searchcenters(x.data(), c.data())) { fprintf(stderr, "driver: lookup refused a point of the knot range\n"); exit(3); }
			double v = transform_of(tkind, x, t.ndsplineeval(x.data(), c.data(), deriv));
			double sc = v * 4096; if (sc != std::floor(sc) || std::fabs(sc) > 1e8) { fprintf(stderr, "driver: density %g is not a small dyadic rational\n", v); exit(3); }
			p.dn = (long)sc; p.dd = 4096; p.dsign = std::signbit(v) ? -1 : 1;
		}
		p.pn = 1 + (((long)std::floor(p.s[0] * 4) % 4) + 4) % 4;
		sh.pos.push_back(p);
		size_t k = 0; while (k < N && ++idx[k] == axes[k].size()) { idx[k] = 0; k++; } if (k == N) break;
	}
	const size_t nres = (size_t)(cfg % 4 == 3 ? 0 : 1 + cfg % 4), burnin = (size_t)((cfg / 2) % 3);
	{
		std::string o = "{\"e\":\"config\",\"cfg\":" + std::to_string(cfg) + ",\"N\":" + std::to_string(N) + ",\"nres\":" + std::to_string(nres) + ",\"burnin\":" + std::to_string(burnin)
		              + ",\"custom_transform\":" + (tkind ? "true" : "false") + ",\"pos\":[";
		for (size_t i = 0; i < sh.pos.size(); i++) { const Pos& p = sh.pos[i]; o += (i ? "," : "") + std::string("{\"usable\":") + (p.usable ? "true" : "false") + ",\"dens\":[" + std::to_string(p.dn) + "," + std::to_string(p.dd) + "," + std::to_string(p.dsign) + "],\"prop\":[" + std::to_string(p.pn) + ",2]}"; }
		fprintf(out, "%s]}\n", o.c_str());
	}
	std::vector<int> usable_ids; for (size_t i = 0; i < sh.pos.size(); i++) if (sh.pos[i].usable) usable_ids.push_back((int)i + 1);
	for (long r = 0; r < runs; r++) {
		sh.script.clear(); sh.uscript.clear(); sh.at = sh.uat = 0; sh.nT = 0; sh.xok = true; sh.exhausted = false;
		// proposals: any position, usable ones more often; long enough for the initial search and all iterations
		size_t need = 40 + nres * (burnin + 1);
		for (size_t i = 0; i < need; i++) sh.script.push_back(rng.below(3) ? usable_ids[rng.below(usable_ids.size())] : 1 + (int)rng.below(sh.pos.size()));
		sh.script[need - nres * (burnin + 1) - 1] = usable_ids[rng.below(usable_ids.size())];   // the initial search always ends
		for (size_t i = 0; i < need; i++) sh.uscript.push_back(rng.below(4) ? (int)rng.below(8191) : (int)(rng.below(9) * 1023));
		fprintf(out, "{\"e\":\"start\"}\n");
		ScriptDist<N> dist{&sh}; ScriptRng srng{&sh}; std::vector<std::array<double, N>> res; std::string err;
		try {
			if (tkind == 0) res = t.template sample<N>(nres, burnin, dims, sh.fixed, dist, srng, deriv);
			else res = t.template sample<N>(nres, burnin, dims, sh.fixed, dist, srng, deriv, LogTransform{&sh, tkind});
		} catch (ScriptExhausted&) { err = "script exhausted"; } catch (std::exception& e) { err = e.what(); }
		std::string o = "{\"e\":\"end\",\"results\":[";
		for (size_t i = 0; i < res.size(); i++) o += (i ? "," : "") + std::to_string(sh.find(res[i].data(), N));
		o += "],\"nT\":" + std::to_string(sh.nT) + ",\"xok\":" + (sh.xok ? "true" : "false") + ",\"err\":\"" + err + "\",\"left\":" + std::to_string(sh.script.size() - sh.at) + "}";
		fprintf(out, "%s\n", o.c_str());
	}
}

int main(int argc, char** argv) {
	if (argc < 5) return 2;
	int cfg = atoi(argv[1]); long runs = atol(argv[2]); uint64_t seed = strtoull(argv[3], 0, 10); FILE* out = fopen(argv[4], "w");
	alarm(120);
	if (cfg % 4 == 2) run_config<2>(cfg, runs, seed, out); else run_config<1>(cfg, runs, seed, out);
	fclose(out); return 0;
}
