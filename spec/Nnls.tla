-------------------------------- MODULE Nnls --------------------------------
(***************************************************************************)
(* Non-negative least squares on normal equations (property C11):          *)
(*     minimise 1/2 x'Ax - b'x   subject to x >= 0,   A symmetric positive *)
(* definite.  For n <= 3 the unique minimiser is computed exactly by       *)
(* enumerating the 2^n active sets and solving each reduced system with    *)
(* Cramer's rule in rationals; KKT characterises it.  The sign-class form  *)
(* of KKT is what the trace specifications apply to observations of the    *)
(* real solvers (values classified by the driver with the solver's         *)
(* tolerance).                                                             *)
(***************************************************************************)
EXTENDS Rat, FiniteSets, TLC

(* determinant of a k x k rational matrix given as function on 1..k x 1..k (closed forms up to 3, Laplace expansion above) *)
RECURSIVE Det(_, _)
Det(M, k) ==
    IF k = 0 THEN One
    ELSE IF k = 1 THEN M[1][1]
    ELSE IF k = 2 THEN RSub(RMul(M[1][1], M[2][2]), RMul(M[1][2], M[2][1]))
    ELSE IF k = 3 THEN
         RAdd(RSub(RMul(M[1][1], RSub(RMul(M[2][2], M[3][3]), RMul(M[2][3], M[3][2]))),
                   RMul(M[1][2], RSub(RMul(M[2][1], M[3][3]), RMul(M[2][3], M[3][1])))),
              RMul(M[1][3], RSub(RMul(M[2][1], M[3][2]), RMul(M[2][2], M[3][1]))))
    ELSE LET Minor(c) == [i \in 1 .. k - 1 |-> [j \in 1 .. k - 1 |-> M[i + 1][IF j < c THEN j ELSE j + 1]]]
         IN  RSumSeq([c \in 1 .. k |-> RMul(IF c % 2 = 1 THEN M[1][c] ELSE RNeg(M[1][c]), Det(Minor(c), k - 1))])

(* ordered list of a set of indices *)
RECURSIVE SetToSeq(_)
SetToSeq(S) == IF S = {} THEN <<>> ELSE LET m == CHOOSE x \in S : \A y \in S : x <= y IN <<m>> \o SetToSeq(S \ {m})

(* solution of A[F,F] y = b[F] by Cramer's rule, extended by zeros outside F *)
SolveOn(A, b, n, F) ==
    LET f == SetToSeq(F)  k == Len(f)
        AF == [i \in 1 .. k |-> [j \in 1 .. k |-> A[f[i]][f[j]]]]
        d == Det(AF, k)
        Col(c) == [i \in 1 .. k |-> [j \in 1 .. k |-> IF j = c THEN b[f[i]] ELSE AF[i][j]]]
        y == [c \in 1 .. k |-> RDiv(Det(Col(c), k), d)]
    IN  [i \in 1 .. n |-> IF i \in F THEN y[CHOOSE c \in 1 .. k : f[c] = i] ELSE Zero]

Grad(A, b, n, x) == [i \in 1 .. n |-> RSub(RSumSeq([j \in 1 .. n |-> RMul(A[i][j], x[j])]), b[i])]
KKT(A, b, n, x) == LET g == Grad(A, b, n, x) IN
                   \A i \in 1 .. n : /\ RSign(x[i]) >= 0 /\ (RSign(x[i]) > 0 => g[i] = Zero) /\ (x[i] = Zero => RSign(g[i]) >= 0)
SPD(A, n) == \A k \in 1 .. n : RSign(Det([i \in 1 .. k |-> [j \in 1 .. k |-> A[i][j]]], k)) > 0      \* Sylvester
Candidates(A, b, n) == {SolveOn(A, b, n, F) : F \in SUBSET (1 .. n)}
Minimiser(A, b, n) == CHOOSE x \in Candidates(A, b, n) : KKT(A, b, n, x)
HasUniqueMinimiser(A, b, n) == Cardinality({x \in Candidates(A, b, n) : KKT(A, b, n, x)}) = 1

(* KKT on sign classes: xs[i] in {"pos","zero","neg"}, gs[i] in {"pos","zero","neg"} *)
KKTClasses(xs, gs) == \A i \in 1 .. Len(xs) : /\ xs[i] # "neg" /\ (xs[i] = "pos" => gs[i] = "zero") /\ (xs[i] = "zero" => gs[i] # "neg")
NonDecreasingSeq(s) == \A i \in 1 .. Len(s) - 1 : s[i] <= s[i + 1]
=============================================================================
