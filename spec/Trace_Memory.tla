---------------------------- MODULE Trace_Memory ----------------------------
(* every line: one measured load(+convolve) of a real file with a byte-counting allocator:                      *)
(*   {"m":meta, "cd":dim, "nk":kernel knots, "peak":measured peak, "estimate":estimateMemory(...), "sizes":[..]} *)
(* C19: peak <= estimate.  Additionally (drift only): the requests are the ones Memory!AllocTrace predicts and   *)
(* estimateMemory returned Memory!Estimate.                                                                      *)
EXTENDS Memory, Json, IOUtils
TraceLog == ndJsonDeserialize(IOEnv.TRACE)
VARIABLES l, bad
Ev == TraceLog[l]
Meta(e) == [ndim |-> e.m.ndim, order |-> e.m.order, nknots |-> e.m.nknots, naxes |-> e.m.naxes,
            aux |-> [i \in 1 .. Len(e.m.aux) |-> <<e.m.aux[i][1], e.m.aux[i][2]>>]]
Pos(s) == SelectSeq(s, LAMBDA v : v >= 0)
Deviations ==
    (IF Ev.peak > Ev.estimate THEN {"peak-exceeds-estimate"} ELSE {}) \cup
    (IF Ev.peak # Peak(Meta(Ev), Ev.cd, Ev.nk) THEN {"drift-peak"} ELSE {}) \cup
    (IF Ev.sizes # Pos(AllocTrace(Meta(Ev), Ev.cd, Ev.nk)) THEN {"drift-allocation-sequence"} ELSE {}) \cup
    (IF Ev.estimate # Estimate(Meta(Ev), Ev.cd, Ev.nk) + Ev.objsize - ObjSize THEN {"drift-estimate-formula"} ELSE {})
Devs(S) == LET RECURSIVE F(_) F(T) == IF T = {} THEN <<>> ELSE LET x == CHOOSE y \in T : TRUE IN <<[line |-> l, kind |-> x]>> \o F(T \ {x}) IN F(S)
TInit == l = 1 /\ bad = <<>>
TNext == l <= Len(TraceLog) /\ l' = l + 1 /\ bad' = bad \o Devs(Deviations)
TSpec == TInit /\ [][TNext]_<<l, bad>>
Report == l = Len(TraceLog) + 1 => PrintT(ToJson([deviations |-> bad, lines |-> Len(TraceLog)]))
TraceAccepted == TLCGet("stats").diameter - 1 = Len(TraceLog)
=============================================================================
