------------------------------ MODULE EvalAlgo ------------------------------
(***************************************************************************)
(* The evaluation algorithms of photospline, transcribed branch by branch  *)
(* from include/photospline/bspline.h and detail/bspline_eval.h, over      *)
(* exact rationals:                                                        *)
(*   Bsplvb          bsplvb()            the de Boor triangular recurrence *)
(*   BsplvbSimple    bsplvb_simple()     margin shift + recurrence +       *)
(*                                       move-and-zero re-indexing         *)
(*   DerivNonzero    bspline_deriv_nonzero()                               *)
(*   Nonzero         bspline_nonzero()   value and derivative rows         *)
(*   CoreWalk        ndsplineeval_core() the odometer over the             *)
(*                                       (order+1)^ndim coefficient block  *)
(* Knots outside 0..nk-1 are the allocation padding, which the library     *)
(* never initialises: reading them gives Junk, which is absorbing, so      *)
(* "result is not Junk" establishes that no returned value depends on      *)
(* padding (properties C01, C05).  A division by zero is Junk as well.     *)
(* Touched index sets are computed alongside for the memory-safety model.  *)
(***************************************************************************)
EXTENDS BSplineMath

CONSTANT MarginElseIf   \* TRUE models the pinned tree's `else if` between the two margin loops

(* padded knot read: 0-based index j, may be outside the logical vector *)
KP(t, j) == IF j >= 0 /\ j < Len(t) THEN R(t[j + 1]) ELSE Junk

(***************************************************************************)
(* Margin handling common to the three basis routines.  lo is the center   *)
(* value that selects the downward walk (order), hi the one that selects   *)
(* the upward walk (nknots-order-2).                                       *)
(***************************************************************************)
RECURSIVE WalkDown(_, _, _)
WalkDown(t, x, left) == IF left >= 0 /\ RLt(x, KP(t, left)) THEN WalkDown(t, x, left - 1) ELSE left
RECURSIVE WalkUp(_, _, _)
WalkUp(t, x, left) ==
    IF left < Len(t) - 1 /\ RLt(KP(t, left + 1), x) THEN WalkUp(t, x, left + 1) ELSE left

MarginShift(t, x, left, lo, hi) ==
    IF MarginElseIf
    THEN IF left = lo THEN WalkDown(t, x, left)
         ELSE IF left = hi THEN WalkUp(t, x, left) ELSE left
    ELSE LET l1 == IF left = lo THEN WalkDown(t, x, left) ELSE left
         IN  IF l1 = hi THEN WalkUp(t, x, l1) ELSE l1

(***************************************************************************)
(* bsplvb: state is <<biatx, delta_r, delta_l>>, all 1-based sequences of  *)
(* length `len`; entries not yet written are Junk.                         *)
(***************************************************************************)
RECURSIVE BInner(_, _, _, _, _, _)
BInner(b, dr, dl, j, i, saved) ==
    IF i > j THEN [b EXCEPT ![j + 2] = saved]
    ELSE LET term == RDiv(b[i + 1], RAdd(dr[i + 1], dl[j - i + 1]))
         IN  BInner([b EXCEPT ![i + 1] = RAdd(saved, RMul(dr[i + 1], term))],
                    dr, dl, j, i + 1, RMul(dl[j - i + 1], term))

RECURSIVE BOuter(_, _, _, _, _, _, _, _)
BOuter(t, x, left, jhigh, b, dr, dl, j) ==
    IF j >= jhigh - 1 THEN <<b, dr, dl>>
    ELSE LET dr2 == [dr EXCEPT ![j + 1] = RSub(KP(t, left + j + 1), x)]
             dl2 == [dl EXCEPT ![j + 1] = RSub(x, KP(t, left - j))]
         IN  BOuter(t, x, left, jhigh, BInner(b, dr2, dl2, j, 0, Zero), dr2, dl2, j + 1)

JunkSeq(len) == [k \in 1 .. len |-> Junk]

Bsplvb(t, x, left, jlow, jhigh, st) ==
    LET b0 == IF jlow = 0 THEN [st[1] EXCEPT ![1] = One] ELSE st[1]
    IN  BOuter(t, x, left, jhigh, b0, st[2], st[3], jlow)

(* move-and-zero re-indexing for partially supported points; len = number of entries *)
Reindex(b, left, len, nk) ==
    LET i1 == len - 1 - left
        i2 == left + len + 1 - nk
    IN  IF i1 > 0 THEN [k \in 1 .. len |-> IF k - 1 <= left THEN b[k + i1] ELSE Zero]
        ELSE IF i2 > 0 THEN [k \in 1 .. len |-> IF k - 1 >= i2 THEN b[k - i2] ELSE Zero]
        ELSE b

(* bsplvb_simple(knots, nknots, x, left, degree): degree = order+1 values *)
BsplvbSimple(t, x, left0, degree) ==
    LET nk == Len(t)
        left == MarginShift(t, x, left0, degree - 1, nk - degree - 1)
        st == Bsplvb(t, x, left, 0, degree, <<JunkSeq(degree), JunkSeq(degree), JunkSeq(degree)>>)
    IN  Reindex(st[1], left, degree, nk)

(* the linear combination that turns the order n-1 basis into derivatives of the order n basis *)
DerivCombine(t, left, n, v) ==
    [k \in 1 .. n + 1 |->
        IF k = 1 THEN RNeg(RDiv(RMul(R(n), v[1]), RSub(KP(t, left + 1), KP(t, left + 1 - n))))
        ELSE IF k = n + 1 THEN RDiv(RMul(R(n), v[n]), RSub(KP(t, left + n), KP(t, left)))
        ELSE RSub(RDiv(RMul(R(n), v[k - 1]), RSub(KP(t, left + k - 1), KP(t, left + k - 1 - n))),
                  RDiv(RMul(R(n), v[k]), RSub(KP(t, left + k), KP(t, left + k - n))))]

(* bspline_deriv_nonzero(knots, nknots, x, left, n): n+1 derivative values *)
DerivNonzero(t, x, left0, n) ==
    IF n = 0 THEN <<Zero>>     \* after the fix; the pinned tree left the output unset (see DESIGN, C02)
    ELSE LET nk == Len(t)
             left == MarginShift(t, x, left0, n, nk - n - 2)
             st == Bsplvb(t, x, left, 0, n, <<JunkSeq(n + 1), JunkSeq(n + 1), JunkSeq(n + 1)>>)
         IN  Reindex(DerivCombine(t, left, n, st[1]), left, n + 1, nk)

(* bspline_nonzero: <<values, derivs>> *)
Nonzero(t, x, left0, n) ==
    IF n = 0 THEN <<<<One>>, <<Zero>>>>
    ELSE LET nk == Len(t)
             left == MarginShift(t, x, left0, n, nk - n - 2)
             st1 == Bsplvb(t, x, left, 0, n, <<JunkSeq(n + 1), JunkSeq(n + 1), JunkSeq(n + 1)>>)
             der == DerivCombine(t, left, n, st1[1])
             st2 == Bsplvb(t, x, left, n - 1, n + 1, st1)
         IN  <<Reindex(st2[1], left, n + 1, nk), Reindex(der, left, n + 1, nk)>>

(***************************************************************************)
(* Index model (property C05): knot indices read by the recurrences for a  *)
(* given shifted `left`, and the coefficient offsets read by the core.     *)
(***************************************************************************)
KnotsTouchedSimple(left, degree) ==
    UNION {{left + j + 1, left - j} : j \in 0 .. degree - 2}
KnotsTouchedDeriv(left, n) ==
    KnotsTouchedSimple(left, n) \cup {left + 1, left + 1 - n, left + n, left}
        \cup UNION {{left + i, left + i - n, left + i + 1, left + i + 1 - n} : i \in 1 .. n - 1}

(***************************************************************************)
(* searchcenters for one dimension, as a function (the step-by-step state  *)
(* machine with its termination argument is module Centers).  x is a       *)
(* rational or the string "nan" (every comparison false).                  *)
(***************************************************************************)
Lt(a, b) == a # "nan" /\ b # "nan" /\ RLt(a, b)
Le(a, b) == a # "nan" /\ b # "nan" /\ RLe(a, b)

(***************************************************************************)
(* ndsplineeval_core: the odometer.  T is a record                         *)
(*   [ndim, order, naxes, strides, coef]   (all 1-based sequences, coef    *)
(* 1-based over the row-major tensor), lb the local basis rows.  Returns   *)
(* <<value, sequence of coefficient offsets read (0-based)>>.              *)
(***************************************************************************)
RECURSIVE Carry(_, _, _, _)
\* returns <<i, dp, tablepos>> after the carry loop started at index i (0-based)
Carry(T, i, dp, tp) ==
    IF dp[i + 1] > T.order[i + 1]
    THEN Carry(T, i - 1,
               [dp EXCEPT ![i] = dp[i] + 1, ![i + 1] = 0],
               tp + (T.strides[i] - dp[i + 1] * T.strides[i + 1]))
    ELSE <<i, dp, tp>>

RECURSIVE TreeUpdate(_, _, _, _, _)
TreeUpdate(T, lb, dp, tree, j) ==
    IF j >= T.ndim - 1 THEN tree
    ELSE TreeUpdate(T, lb, dp, [tree EXCEPT ![j + 2] = RMul(tree[j + 1], lb[j + 1][dp[j + 1] + 1])], j + 1)

RECURSIVE ChunkSum(_, _, _, _, _, _)
ChunkSum(T, lb, tree, tp, i, acc) ==
    IF i > T.order[T.ndim] THEN acc
    ELSE ChunkSum(T, lb, tree, tp, i + 1,
                  <<RAdd(acc[1], RMul(RMul(tree[T.ndim], lb[T.ndim][i + 1]), R(T.coef[tp + i + 1]))),
                    Append(acc[2], tp + i)>>)

RECURSIVE WalkLoop(_, _, _, _, _, _, _, _)
WalkLoop(T, lb, nchunks, n, dp, tree, tp, acc) ==
    LET acc2 == ChunkSum(T, lb, tree, tp, 0, acc)
    IN  IF n + 1 = nchunks THEN acc2
        ELSE LET tp1 == tp + T.strides[T.ndim - 1]
                 dp1 == [dp EXCEPT ![T.ndim - 1] = dp[T.ndim - 1] + 1]
                 cr == Carry(T, T.ndim - 2, dp1, tp1)
                 tree2 == TreeUpdate(T, lb, cr[2], tree, cr[1])
             IN  WalkLoop(T, lb, nchunks, n + 1, cr[2], tree2, cr[3], acc2)

RECURSIVE Prod(_)
Prod(s) == IF s = <<>> THEN 1 ELSE Head(s) * Prod(Tail(s))
RECURSIVE SumInt(_)
SumInt(s) == IF s = <<>> THEN 0 ELSE Head(s) + SumInt(Tail(s))

CoreWalk(T, centers, lb) ==
    LET tp0 == SumInt([d \in 1 .. T.ndim |-> (centers[d] - T.order[d]) * T.strides[d]])
        tree0 == [k \in 1 .. T.ndim + 1 |-> IF k = 1 THEN One ELSE Junk]
        RECURSIVE Init0(_, _)
        Init0(tr, d) == IF d > T.ndim THEN tr ELSE Init0([tr EXCEPT ![d + 1] = RMul(tr[d], lb[d][1])], d + 1)
        nchunks == Prod([d \in 1 .. T.ndim - 1 |-> T.order[d] + 1])
    IN  WalkLoop(T, lb, nchunks, 0, [d \in 1 .. T.ndim |-> 0], Init0(tree0, 1), tp0, <<Zero, <<>>>>)
=============================================================================
