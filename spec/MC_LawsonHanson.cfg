SPECIFICATION FairSpec
CONSTANTS Thorough = FALSE MaxN = 3 FreeCoords = 0
INVARIANTS Inv
PROPERTIES Descent Terminates
CHECK_DEADLOCK FALSE
