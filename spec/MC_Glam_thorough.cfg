SPECIFICATION Spec
CONSTANTS MaxDim = 4 EmitJson = TRUE Lambdas = {0, 1, 1000, 1000000} Small3D = FALSE
INVARIANTS Check EmitProblem
CHECK_DEADLOCK FALSE
