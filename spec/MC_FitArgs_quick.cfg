SPECIFICATION Spec
CONSTANTS MaxBad = 1 Dims = {1,2,3}
INVARIANTS AllowedNonEmpty Emit
CHECK_DEADLOCK FALSE
