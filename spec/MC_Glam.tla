------------------------------ MODULE MC_Glam ------------------------------
(***************************************************************************)
(* Model checking of Glam.tla on a catalogue of axes (order, irregular     *)
(* knots, abscissae) and generation of the exact ingredients for the       *)
(* conformance driver (C09, C10, C17):                                     *)
(*   state "axis":    one catalogue axis; emits its exact basis matrix and *)
(*                    penalty matrices for penalty orders 0..order         *)
(*   state "problem": one fitting problem = tuple of axes, penalty orders, *)
(*                    smoothing strengths, data / weight pattern ids       *)
(* Invariants on every axis:                                               *)
(*   DerivAgrees     D^(p) c, expanded in the order n-p basis, equals the  *)
(*                   p-th derivative of sum c_j B_j from BSplineMath!DB    *)
(*   PolyNullSpace   D^(1) ones = 0, D^(2) Greville = 0                    *)
(*   PenaltySymmetric, PenaltyPSD-diagonal (P_jj >= 0)                     *)
(***************************************************************************)
EXTENDS Glam, TLC, Json
CONSTANTS MaxDim, EmitJson, Lambdas, Small3D

Axis(id) == CASE id = 1 -> [n |-> 0, t |-> <<0, 1, 2, 3, 5>>]
              [] id = 2 -> [n |-> 1, t |-> <<0, 1, 3, 4, 6, 7>>]
              [] id = 3 -> [n |-> 2, t |-> <<0, 1, 2, 4, 5, 7, 8, 9>>]
              [] id = 4 -> [n |-> 3, t |-> <<0, 1, 2, 3, 5, 6, 8, 9, 10, 11>>]
              [] id = 5 -> [n |-> 4, t |-> <<0, 1, 2, 3, 4, 5, 6, 7, 8, 9, 10, 11>>]
              [] id = 6 -> [n |-> 2, t |-> <<-3, -2, 0, 1, 2, 3, 6>>]
              [] id = 7 -> [n |-> 1, t |-> <<0, 2, 3, 4>>]
              [] OTHER -> [n |-> 3, t |-> <<0, 1, 2, 3, 4, 5, 6, 7>>]
AxisIds == 1 .. 8
(* abscissae: every half-integer strictly inside the knot range *)
Xs(a) == LET lo == 2 * a.t[1] + 1  hi == 2 * a.t[Len(a.t)] - 1 IN [k \in 1 .. hi - lo + 1 |-> Norm(lo + k - 1, 2)]

VARIABLES ph, ax, prob
vars == <<ph, ax, prob>>
Init == ph = "start" /\ ax = 0 /\ prob = <<>>
PickAxis == ph = "start" /\ \E id \in AxisIds : ax' = id /\ ph' = "axis" /\ UNCHANGED prob
PickAxes ==
    /\ ph = "start"
    /\ \E nd \in 1 .. MaxDim : \E axes \in [1 .. nd -> AxisIds] :
            /\ (nd >= 2 => \A d \in 1 .. nd : Axis(axes[d]).n <= 3 /\ axes[d] # 5)          \* keep the N-d systems small
            /\ (nd = 3 => \A d \in 1 .. nd : axes[d] \in {1, 2, 7, 6})
            /\ (nd = 4 => \A d \in 1 .. nd : axes[d] \in {1, 2, 7})
            /\ prob' = [axes |-> axes]
    /\ ph' = "axes" /\ UNCHANGED ax
PickProblem ==
    /\ ph = "axes"
    /\ LET axes == prob.axes  nd == Len(axes) IN
         \E pens \in [1 .. nd -> 0 .. 2], lam \in [1 .. nd -> Lambdas], dp \in 1 .. 3, wp \in 1 .. 2, scalar \in BOOLEAN :
            /\ \A d \in 1 .. nd : pens[d] <= Axis(axes[d]).n
            /\ (scalar => \A d \in 1 .. nd : lam[d] = lam[1] /\ pens[d] = pens[1])
            /\ ((Small3D /\ nd = 3) => scalar)
            /\ (nd = 4 => scalar /\ dp # 2)
            /\ prob' = [axes |-> axes, pens |-> pens, lam |-> lam, data |-> dp, weights |-> wp, scalar |-> scalar]
    /\ ph' = "problem" /\ UNCHANGED ax
Next == PickAxis \/ PickAxes \/ PickProblem
Spec == Init /\ [][Next]_vars

RatJ(r) == <<r[1], r[2]>>
MatJ(M) == [i \in 1 .. Len(M) |-> [j \in 1 .. Len(M[i]) |-> RatJ(M[i][j])]]
TestVec(m) == [j \in 1 .. m |-> R(((j * 7) % 5) - 2)]

Check ==
    ph = "axis" =>
        LET a == Axis(ax)  n == a.n  t == a.t  m == NSpl(t, n)  xs == Xs(a)  c == TestVec(m)
            DerivAgrees ==
                \A p \in 0 .. n : \A k \in {kk \in 1 .. Len(xs) : RLe(K(t, n), xs[kk]) /\ RLt(xs[kk], K(t, m))} :   \* fully supported range
                    LET dc == MatVec(DerivMat(t, n, p), c)
                        lhs == RSumSeq([r \in 1 .. m - p |-> RMul(dc[r], B(t, n - p, p + r - 1, xs[k], "R"))])
                        rhs == RSumSeq([j \in 1 .. m |-> RMul(c[j], DB(t, n, j - 1, xs[k], p, "R"))])
                    IN  lhs = rhs
            PolyNullSpace ==
                /\ (n >= 1 => IsZeroVec(MatVec(DerivMat(t, n, 1), [j \in 1 .. m |-> One])))
                /\ (n >= 2 => IsZeroVec(MatVec(DerivMat(t, n, 2), Greville(t, n))))
            PenOK == \A p \in 0 .. n : LET P == PenaltyMat(t, n, p) IN \A i \in 1 .. m : RSign(P[i][i]) >= 0 /\ \A j \in 1 .. m : P[i][j] = P[j][i]
            DividedDiffsOK == \A p \in 0 .. n : \A j \in 0 .. m - p - 1 : DividedDiffsRowOK(t, n, p, j)
        IN  /\ Assert(DerivAgrees, <<"DerivAgrees", ax>>)
            /\ Assert(DividedDiffsOK, <<"divided_diffs of glam.c differs from the derivative-coefficient matrix", ax>>)
            /\ Assert(PolyNullSpace, <<"PolyNullSpace", ax>>)
            /\ Assert(PenOK, <<"PenaltySymmetric", ax>>)
            /\ EmitJson => PrintT(ToJson([kind |-> "axis", id |-> ax, n |-> n, t |-> t, xs |-> [k \in 1 .. Len(xs) |-> RatJ(xs[k])],
                                         B |-> MatJ(BasisMat(t, n, xs)), P |-> [p \in 1 .. n + 1 |-> MatJ(PenaltyMat(t, n, p - 1))]]))
EmitProblem == (ph = "problem" /\ EmitJson) => PrintT(ToJson([kind |-> "problem", p |-> prob]))
=============================================================================
