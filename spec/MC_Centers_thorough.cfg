SPECIFICATION Spec
CONSTANTS
  Orders = {0,1,2,3,4,5}
  ExtraLens = {0,1,2,3}
  Gaps = {0,1}
  RejectNaN = TRUE
  EmitJson = TRUE
  MarginElseIf = FALSE
INVARIANTS C04Post ProbeSafe NoWrap Bounded CoefOwned KnotsOwned Emit
CHECK_DEADLOCK FALSE
