----------------------------- MODULE Lifecycle -----------------------------
(***************************************************************************)
(* The life cycle of table objects (property C20) as a contract between an *)
(* abstract object state and every public operation, including operations  *)
(* that fail (invalid input, failing read, injected allocation failure).    *)
(*                                                                         *)
(* Abstract state of an object (the driver's projection):                  *)
(*   [ndim, order, nknots, naxes, ext, per, aux, digest]                   *)
(* ndim = 0 is the empty object; aux is the sequence of <<key length,      *)
(* value length>>; digest identifies knots+coefficients.                   *)
(*                                                                         *)
(* Bytes(m) is the number of bytes the object may hold from its allocator  *)
(* when it is quiescent - the allocation scheme of splinetable.h,          *)
(* fitsio.h, fit.h, convolve.h written down once.  "ledger = Bytes(state)" *)
(* after every call is the leak/abandonment clause of the property.        *)
(***************************************************************************)
EXTENDS Integers, Sequences, FiniteSets, TLC

RECURSIVE SumSeq(_)
SumSeq(s) == IF s = <<>> THEN 0 ELSE Head(s) + SumSeq(Tail(s))
RECURSIVE ProdS(_)
ProdS(s) == IF s = <<>> THEN 1 ELSE Head(s) * ProdS(Tail(s))

IsEmpty(m) == m.ndim = 0
AuxBytes(m) == Len(m.aux) * 8 + SumSeq([i \in 1 .. Len(m.aux) |-> 16 + m.aux[i][1] + 1 + m.aux[i][2] + 1])
Bytes(m) ==
    AuxBytes(m) +
    (IF IsEmpty(m) THEN 0
     ELSE m.ndim * 4                                                          \* order
          + m.ndim * 8 + m.ndim * 8                                           \* knot pointers, nknots
          + SumSeq([d \in 1 .. m.ndim |-> (m.nknots[d] + 2 * m.order[d]) * 8]) \* padded knot vectors
          + (IF m.ext THEN m.ndim * 8 + 2 * m.ndim * 8 ELSE 0)                \* extents
          + (IF m.per THEN m.ndim * 8 ELSE 0)                                 \* periods
          + ProdS(m.naxes) * 4                                                \* coefficients
          + m.ndim * 8 + m.ndim * 8)                                          \* naxes, strides

SameTable(a, b) == a.ndim = b.ndim /\ a.order = b.order /\ a.nknots = b.nknots /\ a.naxes = b.naxes /\ a.digest = b.digest
Same(a, b) == SameTable(a, b) /\ a.aux = b.aux /\ a.ext = b.ext /\ a.per = b.per

(***************************************************************************)
(* What an operation may do.  e is the recorded call:                      *)
(*   [op, ok, pre, post, live, errs, (want), (kind), (src_pre, src_post)]  *)
(* Returns the set of violated clauses (strings).                          *)
(***************************************************************************)
Judge(e) ==
    LET pre == e.pre
        post == e.post
        failed == ~e.ok
        common ==
            (IF e.errs > 0 THEN {"allocator-misuse"} ELSE {}) \cup          \* double free, wrong size, foreign block
            (IF e.live # Bytes(post) THEN {"ledger-mismatch"} ELSE {}) \cup  \* leak or abandoned storage
            (IF failed /\ ~(Same(post, pre) \/ (IsEmpty(post) /\ post.aux = <<>>)) THEN {"failed-op-changed-object"} ELSE {})
        specific ==
            CASE e.op \in {"read", "readmem"} ->
                    IF ~IsEmpty(pre) THEN (IF e.ok THEN {"read-overwrote-populated"} ELSE {})
                    ELSE IF e.kind = "valid" THEN (IF failed THEN (IF e.armed < 0 THEN {"valid-read-failed"} ELSE {}) ELSE IF ~SameTable(post, e.want) THEN {"read-wrong-table"} ELSE {})
                    ELSE (IF e.ok THEN {"invalid-input-accepted"} ELSE IF ~IsEmpty(post) THEN {"failed-read-not-empty"} ELSE {})
              [] e.op = "fit" ->
                    IF e.kind = "bad" THEN (IF e.ok THEN {"bad-fit-accepted"} ELSE {})
                    ELSE IF IsEmpty(pre) THEN (IF failed /\ e.armed < 0 THEN {"good-fit-failed"} ELSE {})
                    ELSE {}                                                   \* on a populated table: refuse, or replace (ledger clause decides leaks)
              [] e.op \in {"write", "writemem"} ->
                    (IF IsEmpty(pre) /\ e.ok THEN {"empty-table-written"} ELSE {}) \cup
                    (IF ~IsEmpty(pre) /\ failed /\ e.armed < 0 THEN {"write-failed"} ELSE {}) \cup
                    (IF ~Same(post, pre) THEN {"write-changed-object"} ELSE {})
              [] e.op = "compare" -> IF ~Same(post, pre) THEN {"compare-changed-object"} ELSE {}
              [] e.op = "convolve" ->
                    IF e.ok /\ ~(post.ndim = pre.ndim /\ post.order[e.dim] = pre.order[e.dim] + e.nk - 1
                                 /\ post.nknots[e.dim] = pre.nknots[e.dim] * e.nk
                                 /\ \A d \in 1 .. pre.ndim : d # e.dim => (post.order[d] = pre.order[d] /\ post.nknots[d] = pre.nknots[d]))
                    THEN {"convolve-wrong-shape"} ELSE {}
              [] e.op = "permute" ->
                    IF e.kind = "bad" THEN (IF e.ok THEN {"bad-permutation-accepted"} ELSE {})
                    ELSE (IF failed /\ e.armed < 0 THEN {"permutation-refused"} ELSE {})
              [] e.op \in {"moveconstruct", "moveassign"} ->
                    (IF ~Same(post, e.src_pre) THEN {"move-lost-content"} ELSE {}) \cup
                    \* the moved-from object is empty (move construction) or holds the target's previous content (swap)
                    (IF ~(IsEmpty(e.src_post) \/ (e.op = "moveassign" /\ Same(e.src_post, pre))) THEN {"moved-from-not-empty"} ELSE {})
              [] e.op = "stack" ->
                    \* e.src_pre / e.src_post: the first source table; e.nsrc: number of stacked tables; e.so: order of the new dimension
                    (IF ~Same(e.src_post, e.src_pre) THEN {"stack-changed-source"} ELSE {}) \cup
                    (IF e.stray # 0 THEN {"stack-leaked-temporaries"} ELSE {}) \cup
                    (IF e.kind = "bad" THEN (IF e.ok THEN {"bad-stack-accepted"} ELSE {})
                     ELSE IF failed THEN (IF e.armed < 0 THEN {"good-stack-failed"} ELSE {})
                     ELSE LET s == e.src_pre n == s.ndim IN
                          IF ~(post.ndim = n + 1
                               /\ SubSeq(post.order, 1, n) = s.order /\ post.order[n + 1] = e.so
                               /\ SubSeq(post.nknots, 1, n) = s.nknots /\ post.nknots[n + 1] = e.nsrc + 2 + e.so + 1
                               /\ SubSeq(post.naxes, 1, n) = s.naxes /\ post.naxes[n + 1] = e.nsrc + 2)
                          THEN {"stack-wrong-shape"} ELSE {})
              [] e.op = "destroy" -> IF e.live # 0 THEN {"leak-at-destruction"} ELSE {}
              [] OTHER -> {}
    IN  IF e.op = "destroy" THEN (IF e.errs > 0 THEN {"allocator-misuse"} ELSE {}) \cup specific
        ELSE common \cup specific
=============================================================================
