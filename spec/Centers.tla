------------------------------ MODULE Centers ------------------------------
(***************************************************************************)
(* splinetable::searchcenters (detail/bspline_eval.h) for one dimension as *)
(* a step machine: range test, margin clamping, binary search, last-       *)
(* interval correction.  Only order relations between x and the knots      *)
(* matter, so knots live on multiples of 4 of an integer lattice and x     *)
(* ranges over all lattice points (4k = knot, 4k+-1 = the floating-point   *)
(* neighbours of a knot, 4k+2 = a point strictly between) and the symbols  *)
(* -inf, +inf, NaN (encoded as integers NInf, PInf, NaN).  The conformance driver maps lattice points to   *)
(* doubles by any strictly increasing map, which preserves every           *)
(* comparison the machine makes.                                           *)
(*                                                                         *)
(* Properties: C04 (Accept, Range, Bracket, termination) and the index     *)
(* model of C05 (CoefOwned, KnotsOwned: every index the evaluation         *)
(* routines read for a returned center is inside owned memory).            *)
(***************************************************************************)
EXTENDS EvalAlgo, TLC, Json

CONSTANTS Orders, ExtraLens, Gaps,   \* Gaps: set of gap values (0 = repeated knot, 1 = distinct)
          RejectNaN,                 \* TRUE: the range test is written so that NaN fails it (after the fix)
          EmitJson

VARIABLES n, t, x, pc, lo, hi, c, it, ok
vars == <<n, t, x, pc, lo, hi, c, it, ok>>

nk == Len(t)
naxes == nk - n - 1
T(j) == t[j + 1]                         \* 0-based knot read

\* the three non-finite coordinates, encoded as integers far outside the lattice (TLC sets are homogeneous)
NInf == -1000000
PInf == 1000000
NaN == 999999
Special == {NInf, PInf, NaN}
\* comparisons with IEEE semantics: every comparison with NaN is false
XLt(a, k) == a # NaN /\ a < k         \* x < knot
XLe(a, k) == a # NaN /\ a <= k
XGt(a, k) == a # NaN /\ a > k
XGe(a, k) == a # NaN /\ a >= k

(* at or above the upper end of full support: the last supported interval; exactly at the end, where evaluation is from  *)
(* the left, the last supported interval of positive length (the code walks down over repeated knots)                  *)
TopCenter(nn, tt, xx) ==
    LET na == Len(tt) - nn - 1
        pos == {cc \in nn .. na - 1 : tt[cc + 1] # tt[cc + 2]}
    IN  IF xx = tt[na + 1] /\ pos # {} THEN CHOOSE cc \in pos : \A d \in pos : d <= cc
        ELSE IF xx = tt[na + 1] THEN nn ELSE na - 1

Init ==
    /\ pc = "pick_t" /\ n \in Orders /\ t \in {<<e>> : e \in ExtraLens}
    /\ x = 0 /\ lo = 0 /\ hi = 0 /\ c = -1 /\ it = 0 /\ ok = FALSE

PickKnots ==
    /\ pc = "pick_t"
    /\ \E g \in [1 .. 2 * n + 1 + t[1] -> Gaps] : t' = KnotsFromGaps([k \in 1 .. Len(g) |-> 4 * g[k]], 0)
    /\ pc' = "pick_x" /\ UNCHANGED <<n, x, lo, hi, c, it, ok>>

PickX ==
    /\ pc = "pick_x"
    /\ x' \in (-4 .. T(nk - 1) + 4) \cup Special
    /\ pc' = "range" /\ UNCHANGED <<n, t, lo, hi, c, it, ok>>

(* if (x <= knots[0] || x > knots[nknots-1]) return false;   (NaN passes this form)       *)
(* fixed form: if (!(x > knots[0] && x <= knots[nknots-1])) return false;                 *)
RangeTest ==
    /\ pc = "range"
    /\ LET outside == IF RejectNaN THEN ~(XGt(x, T(0)) /\ XLe(x, T(nk - 1)))
                      ELSE XLe(x, T(0)) \/ XGt(x, T(nk - 1))
       IN  IF outside THEN pc' = "fail" /\ ok' = FALSE ELSE pc' = "clamp" /\ ok' = ok
    /\ UNCHANGED <<n, t, x, lo, hi, c, it>>

Clamp ==
    /\ pc = "clamp"
    /\ IF XLt(x, T(n)) THEN c' = n /\ pc' = "done" /\ ok' = TRUE /\ UNCHANGED <<lo, hi>>
       ELSE IF XGe(x, T(naxes)) THEN c' = TopCenter(n, t, x) /\ pc' = "done" /\ ok' = TRUE /\ UNCHANGED <<lo, hi>>
       ELSE lo' = n /\ hi' = nk - 2 /\ pc' = "probe" /\ UNCHANGED <<c, ok>>
    /\ UNCHANGED <<n, t, x, it>>

(* one iteration of the do-while; min/max are uint32_t in the code: a negative hi is a wrap *)
Probe ==
    /\ pc = "probe"
    /\ LET m == (hi + lo) \div 2
       IN  /\ c' = m
           /\ it' = it + 1
           /\ IF XLt(x, T(m)) THEN hi' = m - 1 /\ lo' = lo ELSE lo' = m + 1 /\ hi' = hi
           /\ IF XLt(x, T(m)) \/ XGe(x, T(m + 1)) THEN pc' = "probe" ELSE pc' = "fixlast"
    /\ UNCHANGED <<n, t, x, ok>>

FixLast ==
    /\ pc = "fixlast"
    /\ c' = IF c = naxes THEN c - 1 ELSE c
    /\ pc' = "done" /\ ok' = TRUE
    /\ UNCHANGED <<n, t, x, lo, hi, it>>

Next == PickKnots \/ PickX \/ RangeTest \/ Clamp \/ Probe \/ FixLast
Spec == Init /\ [][Next]_vars /\ WF_vars(Next)

-----------------------------------------------------------------------------
Finished == pc \in {"done", "fail"}
Running == pc \in {"range", "clamp", "probe", "fixlast"} \/ Finished

(* the post-condition of property C04, as a predicate over an observation; also used by Trace_Centers *)
InKnotRange(tt, xx) == XGt(xx, tt[1]) /\ XLe(xx, tt[Len(tt)])
PostC04(nn, tt, xx, okk, cc) ==
    LET nkk == Len(tt)
        na == nkk - nn - 1
        TT(j) == tt[j + 1]
    IN  xx # NaN =>
        /\ okk = InKnotRange(tt, xx)                                             \* Accept
        /\ okk => /\ cc >= nn /\ cc <= na - 1                                    \* Range
                  /\ (XGe(xx, TT(nn)) /\ XLt(xx, TT(na))) => (XGe(xx, TT(cc)) /\ XLt(xx, TT(cc + 1)))   \* Bracket
                  /\ XLt(xx, TT(nn)) => cc = nn                                  \* nearest supported interval
                  /\ XGe(xx, TT(na)) => cc = TopCenter(nn, tt, xx)              \* ... and the last one (of positive length, exactly at the end) at/above its right end

C04Post == Finished => PostC04(n, t, x, ok, c)

(* binary search stays inside the array and does not wrap its unsigned bounds *)
ProbeSafe == pc = "probe" => (lo >= 0 /\ hi >= lo - 1 /\ hi <= nk - 2 /\ (hi + lo) \div 2 >= 0 /\ (hi + lo) \div 2 <= nk - 2)
NoWrap == Running => hi >= -1 /\ (hi = -1 => pc # "probe")

RECURSIVE Log2Ceil(_)
Log2Ceil(k) == IF k <= 1 THEN 0 ELSE 1 + Log2Ceil((k + 1) \div 2)
Bounded == Running => it <= Log2Ceil(nk) + 1
Terminates == <>Finished

(* C05 index model: whatever center the lookup returns (including the one it returns for NaN when NaN *)
(* is not rejected), the coefficient block and the knots read by the basis routines are owned memory  *)
CoefOwned == (pc = "done") => (c - n >= 0 /\ c <= naxes - 1)
KnotsOwned ==
    (pc = "done") =>
        LET left == IF x = NaN THEN c ELSE MarginShift(t, R(x), c, n, nk - n - 2)
        IN  /\ KnotsTouchedSimple(left, n + 1) \subseteq (-n) .. (nk + n - 1)
            /\ (n > 0 => KnotsTouchedDeriv(left, n) \subseteq (-n) .. (nk + n - 1))
            /\ left >= 0 /\ left <= nk - 2

Emit == (Finished /\ EmitJson) => PrintT(ToJson([n |-> n, t |-> t, x |-> x, ok |-> ok, c |-> c, it |-> it]))
=============================================================================
