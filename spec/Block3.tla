------------------------------- MODULE Block3 -------------------------------
(***************************************************************************)
(* nnls_normal_block3 (src/fitter/nnls.c) with walk_descents               *)
(* (cholesky_solve.c) as a step machine in exact rational arithmetic: the  *)
(* block-pivoting active-set method that the monotonic fit relies on       *)
(* (properties C11, C10).  One action per phase of the C code:             *)
(*                                                                         *)
(*   Release   top of the outer loop: H2 = constrained coordinates with a  *)
(*             negative multiplier; common elements of H1 and H2 cancel;   *)
(*             stop when nothing is released AND x solves the problem on   *)
(*             the passive set (the condition added by the repair; with    *)
(*             StopNeedsSolved = FALSE the model is the original code).    *)
(*   Solve     one pass of the inner loop: the passive set F absorbs the   *)
(*             pending changes, the system restricted to F is solved, and  *)
(*             the result is accepted / its negative part is constrained   *)
(*             at the boundary / a step is taken along the descent vector  *)
(*             (walk_descents: trial lengths 1 and the lengths at which    *)
(*             one coordinate reaches zero, in descending order, the first *)
(*             that lowers the objective - or the last one regardless).    *)
(*   Update    multipliers of the constrained coordinates.                 *)
(*                                                                         *)
(* The tolerance of the C code (n * eps * 1e5) is zero here.               *)
(* The objective is  q(x) = x'Ax - 2 b'x  (calc_residual up to a factor).  *)
(***************************************************************************)
EXTENDS Nnls, Sequences
CONSTANTS StopNeedsSolved,      \* TRUE: the repaired termination test
          MaxIter               \* outer iterations allowed (the C code: 120)

VARIABLES n, A, b,              \* the problem (rationals)
          x, y,                 \* current point, multipliers (sequences of rationals)
          F,                    \* passive set of the factorisation
          H1, H2,               \* pending changes: leave F / enter F
          solved,               \* x solves the problem restricted to the current passive set
          pc, iter,
          branch                \* what the last Solve did (for traces)
pvars == <<n, A, b>>
svars == <<x, y, F, H1, H2, solved, pc, iter, branch>>

All == 1 .. n
Q(v) == RSub(RSumSeq([i \in All |-> RMul(v[i], RSumSeq([j \in All |-> RMul(A[i][j], v[j])]))]),
             RMul(R(2), RSumSeq([i \in All |-> RMul(b[i], v[i])])))
Neg(r) == RSign(r) < 0

Start(nn, AA, bb) ==
    /\ n = nn /\ A = AA /\ b = bb
    /\ x = [i \in 1 .. nn |-> Zero] /\ y = [i \in 1 .. nn |-> RNeg(bb[i])]
    /\ F = {} /\ H1 = {} /\ H2 = {} /\ solved = TRUE /\ pc = "release" /\ iter = 0 /\ branch = "start"

Release ==
    /\ pc = "release"
    /\ LET G == All \ (F \ H1)                                     \* Gprime when H1 is pending, G otherwise
           h2 == {i \in G : Neg(y[i])}
           c == H1 \cap h2
       IN  IF (h2 \ c) = {} /\ (solved \/ ~StopNeedsSolved)
           THEN pc' = "done" /\ UNCHANGED <<x, y, F, H1, H2, solved, iter, branch>>
           ELSE IF iter >= MaxIter THEN pc' = "giveup" /\ UNCHANGED <<x, y, F, H1, H2, solved, iter, branch>>
           ELSE /\ H1' = H1 \ c /\ H2' = h2 \ c /\ pc' = "solve" /\ iter' = iter + 1
                /\ UNCHANGED <<x, y, F, solved, branch>>
    /\ UNCHANGED pvars

(***************************************************************************)
(* Ties.  The C code decides with floating-point comparisons; where the    *)
(* exact quantity is zero (a solution component, a trial coordinate, a     *)
(* difference of objectives) either outcome is a behaviour of the code.    *)
(* The operators below therefore take the decision as a parameter that     *)
(* must lie between the strict and the non-strict reading; Solve uses the  *)
(* exact (strict) reading, the trace specification lets TLC pick the one   *)
(* that explains the recorded step.                                        *)
(***************************************************************************)
Between(S, lo, hi) == lo \subseteq S /\ S \subseteq hi
NegSet(F2, v) == {i \in F2 : Neg(v[i])}
NonPosSet(F2, v) == {i \in F2 : RSign(v[i]) <= 0}

(* walk_descents on the passive set F2 with restricted solution xs; inf = the coordinates classified as negative.  *)
(* The set of possible outcomes [pt, clipped, feasible].                                                           *)
WalkOutcomes(F2, xs, inf) ==
    LET alphaOf(i) == RDiv(x[i], RSub(x[i], xs[i]))
        interior == {alphaOf(i) : i \in {j \in inf : xs[j] # x[j] /\ RSign(alphaOf(j)) > 0 /\ RLt(alphaOf(j), One)}}
        RECURSIVE Desc(_)
        Desc(S) == IF S = {} THEN <<>> ELSE LET m == CHOOSE a \in S : \A c \in S : RLe(c, a) IN <<m>> \o Desc(S \ {m})
        alphas == <<One>> \o Desc(interior)                      \* after the reference alpha = 0
        Raw(a) == [i \in All |-> IF i \in F2 THEN RAdd(RMul(RSub(One, a), x[i]), RMul(a, xs[i])) ELSE x[i]]
        Pt(a) == [i \in All |-> IF i \in F2 /\ Neg(Raw(a)[i]) THEN Zero ELSE Raw(a)[i]]
        Clips(a) == {c \in SUBSET F2 : Between(c, NegSet(F2, Raw(a)), NonPosSet(F2, Raw(a)))}
        q0 == Q(x)
        RECURSIVE From(_)
        From(k) == LET pt == Pt(alphas[k])  d == RSign(RSub(Q(pt), q0))  last == k = Len(alphas)
                       stop(f) == {[pt |-> pt, clipped |-> c, feasible |-> f] : c \in Clips(alphas[k])}
                   IN  (IF d < 0 \/ d = 0 THEN stop(TRUE) ELSE {}) \cup             \* lower (or equal: tie) objective: accepted as a descent
                       (IF d >= 0 /\ last THEN stop(FALSE) ELSE {}) \cup           \* the last length is taken regardless
                       (IF d >= 0 /\ ~last THEN From(k + 1) ELSE {})
    IN  From(1)
(* the exact reading: strict comparisons everywhere *)
WalkStrict(F2, xs) ==
    LET inf == NegSet(F2, xs)
        alphaOf(i) == RDiv(x[i], RSub(x[i], xs[i]))
        interior == {alphaOf(i) : i \in {j \in inf : RSign(alphaOf(j)) > 0 /\ RLt(alphaOf(j), One)}}
        RECURSIVE Desc(_)
        Desc(S) == IF S = {} THEN <<>> ELSE LET m == CHOOSE a \in S : \A c \in S : RLe(c, a) IN <<m>> \o Desc(S \ {m})
        alphas == <<One>> \o Desc(interior)
        Trial(a) == LET raw == [i \in All |-> IF i \in F2 THEN RAdd(RMul(RSub(One, a), x[i]), RMul(a, xs[i])) ELSE x[i]]
                    IN  [pt |-> [i \in All |-> IF i \in F2 /\ Neg(raw[i]) THEN Zero ELSE raw[i]], clipped |-> NegSet(F2, raw)]
        q0 == Q(x)
        RECURSIVE Pick(_)
        Pick(k) == LET t == Trial(alphas[k]) IN
                   IF RLt(Q(t.pt), q0) THEN [pt |-> t.pt, clipped |-> t.clipped, feasible |-> TRUE]
                   ELSE IF k = Len(alphas) THEN [pt |-> t.pt, clipped |-> t.clipped, feasible |-> FALSE]
                   ELSE Pick(k + 1)
    IN  Pick(1)

SolveWith(inf, w) ==
    /\ pc = "solve"
    /\ LET F2 == (F \ H1) \cup H2
           sol == IF F2 = {} THEN [i \in All |-> Zero] ELSE SolveOn(A, b, n, F2)
           atBoundary == {i \in inf : x[i] = Zero}
       IN  /\ Between(inf, NegSet(F2, sol), NonPosSet(F2, sol))
           /\ F' = F2 /\ H2' = {}
           /\ IF inf = {}
              THEN /\ x' = sol /\ H1' = {} /\ solved' = TRUE /\ pc' = "update" /\ branch' = "accept"
              ELSE IF inf = atBoundary
              THEN /\ x' = [i \in All |-> IF i \in inf THEN Zero ELSE x[i]] /\ H1' = inf /\ solved' = FALSE /\ pc' = "solve"
                   /\ branch' = "boundary"
              ELSE /\ w \in WalkOutcomes(F2, sol, inf)
                   /\ x' = w.pt /\ H1' = w.clipped /\ solved' = FALSE
                   /\ pc' = IF w.feasible THEN "update" ELSE "solve"
                   /\ branch' = IF w.feasible THEN "walk" ELSE "walk-last"
    /\ UNCHANGED <<y, iter>> /\ UNCHANGED pvars

Solve ==
    LET F2 == (F \ H1) \cup H2
        sol == IF F2 = {} THEN [i \in All |-> Zero] ELSE SolveOn(A, b, n, F2)
    IN  SolveWith(NegSet(F2, sol), WalkStrict(F2, sol))
(* sanity of the two formulations: the strict outcome is one of the outcomes with ties *)
StrictIsAnOutcome ==
    pc = "solve" =>
        LET F2 == (F \ H1) \cup H2
            sol == IF F2 = {} THEN [i \in All |-> Zero] ELSE SolveOn(A, b, n, F2)
            inf == NegSet(F2, sol)
        IN  (inf # {} /\ inf # {i \in inf : x[i] = Zero}) => WalkStrict(F2, sol) \in WalkOutcomes(F2, sol, inf)

Update ==
    /\ pc = "update"
    /\ LET Fp == F \ H1  G == All \ Fp
           g == Grad(A, b, n, [i \in All |-> IF i \in Fp THEN x[i] ELSE Zero])
       IN  /\ y' = [i \in All |-> IF i \in G THEN g[i] ELSE Zero]
           /\ x' = [i \in All |-> IF i \in G THEN Zero ELSE x[i]]
    /\ pc' = "release"
    /\ UNCHANGED <<F, H1, H2, solved, iter, branch>> /\ UNCHANGED pvars

Step == Release \/ Solve \/ Update

(* ---------------------------------------------------------------- properties *)
NonNegative == \A i \in All : ~Neg(x[i])
Consistent == H2 \cap F = {} /\ H1 \subseteq F \cup H2
Optimal == pc = "done" => KKT(A, b, n, x) /\ x = Minimiser(A, b, n)
NeverGivesUp == pc # "giveup"
(* the objective never increases from one Update to the next *)
=============================================================================
