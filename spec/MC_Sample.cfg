SPECIFICATION Spec
CONSTANTS Positions = {1, 2, 3, 4, 5, 6, 7} NResults = 2 Burnin = 1
  Uniforms <- MCUniforms Usable <- MCUsable Dens <- MCDens Prop <- MCProp
INVARIANTS TypeOK ResultsUsable StaysInSupport Accounting DetailedBalance
CHECK_DEADLOCK FALSE
CONSTRAINT Bounded
