------------------------------ MODULE GlamAlgo ------------------------------
(***************************************************************************)
(* The assembly of the normal equations in glamfit_complex (glam.c), the   *)
(* "generalised linear array model" arithmetic of Eilers and Currie, as    *)
(* the code performs it:                                                   *)
(*   F := weights, R := weights * data            (sparse n-d arrays over  *)
(*                                                 the data grid)          *)
(*   for every dimension d:  F := rho(box(B_d, B_d), F, d)                 *)
(*                           R := rho(B_d, R, d)  (rho = slicemultiply)    *)
(*   R is flattened into the right-hand side;                              *)
(*   every axis of F (length n_d^2) is split into a pair (a_d, b_d), the   *)
(*   axes are reordered so that all a come first, and F is flattened into  *)
(*   the matrix  N[flat(a)][flat(b)].                                      *)
(* MC_GlamAlgo checks that the result is  N = B'WB,  r = B'Wz  with the    *)
(* Kronecker-product basis B of the definition (Glam.tla), for 1..3-D      *)
(* problems with dense and sparse data - the index arithmetic of box, rho, *)
(* the in-place doubling of the axes and both flattenings.                 *)
(***************************************************************************)
EXTENDS GridAlgo

(* box(M, M): row p = all products M[p][a] * M[p][b], column a * n + b (0-based a, b) *)
BoxSelf(M) == LET n == Len(M[1]) IN
              [p \in 1 .. Len(M) |-> [c \in 1 .. n * n |-> RMul(M[p][((c - 1) \div n) + 1], M[p][((c - 1) % n) + 1])]]

(* the data: grid lengths g, entries = set of [i |-> 0-based index tuple, w |-> weight, z |-> value] (rationals) *)
F0(g, data) == [ranges |-> g, ent |-> {[i |-> e.i, v |-> e.w] : e \in {x \in data : x.w # Zero}}]
R0(g, data) == [ranges |-> g, ent |-> {[i |-> e.i, v |-> RMul(e.w, e.z)] : e \in {x \in data : RMul(x.w, x.z) # Zero}}]

RECURSIVE Fold(_, _, _, _)
Fold(A, mats, d, boxed) == IF d > Len(mats) THEN A
                           ELSE Fold(SliceMultiply(A, IF boxed THEN BoxSelf(mats[d]) ELSE mats[d], d), mats, d + 1, boxed)

(* the in-place doubling of the axes: new axis 2d-1 (1-based) = index \div n_d, new axis 2d = index % n_d, with       *)
(* ranges[i] = sqrt(ranges[i div 2]) filled from the back (0-based i), then even axes first, odd axes after them   *)
Isqrt(k) == CHOOSE s \in 0 .. k : s * s = k
Doubled(A) ==
    LET nd == Len(A.ranges)
        r2 == [i \in 1 .. 2 * nd |-> Isqrt(A.ranges[((i - 1) \div 2) + 1])]
        split(idx) == [i \in 1 .. 2 * nd |-> IF i % 2 = 1 THEN idx[((i - 1) \div 2) + 1] \div r2[i]
                                                           ELSE idx[((i - 1) \div 2) + 1] % r2[i - 1]]
        reorder(s) == [i \in 1 .. 2 * nd |-> IF i <= nd THEN s[2 * i - 1] ELSE s[2 * (i - nd)]]
    IN  [ranges |-> reorder(r2), ent |-> {[i |-> reorder(split(e.i)), v |-> e.v] : e \in A.ent}]

(* flatten_ndarray_to_sparse(array, nrow, ncol): k = sum idx[j] * moduli[j]; column = k % ncol, row = k div ncol *)
FlatIndex(idx, ranges) == Flatten(idx, ranges)
MatOfArray(A, ncol) == [rc \in {<<FlatIndex(e.i, A.ranges) \div ncol, FlatIndex(e.i, A.ranges) % ncol>> : e \in A.ent} |->
                           (CHOOSE e \in A.ent : <<FlatIndex(e.i, A.ranges) \div ncol, FlatIndex(e.i, A.ranges) % ncol>> = rc).v]
Entry(M, r, c) == IF <<r, c>> \in DOMAIN M THEN M[<<r, c>>] ELSE Zero

(* the whole assembly: mats[d] = basis matrix of dimension d (rows = grid points, columns = splines) *)
Assemble(g, data, mats) ==
    LET nspl == [d \in 1 .. Len(mats) |-> Len(mats[d][1])]
        side == ProdSeq(nspl)
        F == Doubled(Fold(F0(g, data), mats, 1, TRUE))
        Rr == Fold(R0(g, data), mats, 1, FALSE)
    IN  [N |-> MatOfArray(F, side), r |-> MatOfArray(Rr, 1), side |-> side, nspl |-> nspl]

(* the definition: N[a][b] = sum_p w_p prod_d B_d[p_d][a_d] B_d[p_d][b_d],  r[a] = sum_p w_p z_p prod_d B_d[p_d][a_d] *)
DefN(data, mats, nspl, fa, fb) ==
    LET a == Unflatten(fa, nspl)  bb == Unflatten(fb, nspl)
        RECURSIVE S(_)
        S(D) == IF D = {} THEN Zero ELSE LET e == CHOOSE x \in D : TRUE IN
                   RAdd(RMul(e.w, LET RECURSIVE P(_) P(d) == IF d > Len(mats) THEN One
                                          ELSE RMul(RMul(mats[d][e.i[d] + 1][a[d] + 1], mats[d][e.i[d] + 1][bb[d] + 1]), P(d + 1)) IN P(1)), S(D \ {e}))
    IN  S(data)
DefR(data, mats, nspl, fa) ==
    LET a == Unflatten(fa, nspl)
        RECURSIVE S(_)
        S(D) == IF D = {} THEN Zero ELSE LET e == CHOOSE x \in D : TRUE IN
                   RAdd(RMul(RMul(e.w, e.z), LET RECURSIVE P(_) P(d) == IF d > Len(mats) THEN One
                                          ELSE RMul(mats[d][e.i[d] + 1][a[d] + 1], P(d + 1)) IN P(1)), S(D \ {e}))
    IN  S(data)
AssemblyCorrect(g, data, mats) ==
    LET A == Assemble(g, data, mats) IN
    /\ \A fa \in 0 .. A.side - 1 : Entry(A.r, fa, 0) = DefR(data, mats, A.nspl, fa)
    /\ \A fa \in 0 .. A.side - 1 : \A fb \in 0 .. A.side - 1 : Entry(A.N, fa, fb) = DefN(data, mats, A.nspl, fa, fb)
=============================================================================
