SPECIFICATION FairSpec
CONSTANTS Thorough = TRUE MaxN = 2 StopNeedsSolved = TRUE MaxIter = 120
INVARIANTS Inv
PROPERTIES Descent Terminates
CHECK_DEADLOCK FALSE
