------------------------------ MODULE ConvAlgo ------------------------------
(***************************************************************************)
(* The algorithm of splinetable::convolve (Stroem's blossoming), as the    *)
(* code performs it along one dimension: the convolved knot field is the   *)
(* sorted set of pairwise sums; coefficient i of the result is             *)
(*   sum_j  norm * blossom(t[j .. j+n+1], tau, rho[i], rho[i+1 .. i+n+q])  *)
(*          * c[j]                                                         *)
(* with norm = q! n! / (n+q)! and the "convoluted blossom" computed by two *)
(* nested divided differences of truncated products (convolve.cpp).        *)
(* MC_Conv checks that the spline with these coefficients on rho is the    *)
(* exact convolution of module Convolve at every lattice point, so the     *)
(* algorithm, not only its observed output, is verified on the catalogue.  *)
(***************************************************************************)
EXTENDS Convolve

RECURSIVE ProdR(_)
ProdR(s) == IF s = <<>> THEN One ELSE RMul(Head(s), ProdR(Tail(s)))

(* x: sequence of rationals (the n+2 knots of one source spline), y: kernel knots, z: rational, bags: sequence of rationals *)
Blossom(x, y, z, bags) ==
    IF RLt(z, RAdd(x[1], y[1])) \/ RLt(RAdd(x[Len(x)], y[Len(y)]), bags[Len(bags)]) THEN Zero
    ELSE LET funy(i) == [j \in 1 .. Len(y) |->
                           LET s == RAdd(x[i], y[j]) IN
                           IF RSign(RSub(s, z)) > 0 THEN ProdR([k \in 1 .. Len(bags) |-> RSub(s, bags[k])]) ELSE Zero]
             funx == [i \in 1 .. Len(x) |-> DivDiff(y, funy(i))]
         IN  RMul(RSub(x[Len(x)], x[1]), DivDiff(x, funx))

(* the coefficients the code computes, for integer source knots t, order n, kernel knots tau (rationals) *)
ConvCoefs(c, t, n, tau) ==
    LET q == Len(tau) - 1
        rho == ConvKnots(t, tau)
        nnew == Len(rho) - (n + q) - 1
        norm == Norm(Fact(q) * Fact(n), Fact(n + q))
        X(j) == [m \in 1 .. n + 2 |-> R(t[j + m - 1])]
        Bags(i) == [m \in 1 .. n + q |-> rho[i + m]]
    IN  [i \in 1 .. nnew |-> RSumSeq([j \in 1 .. Len(c) |-> RMul(R(c[j]), RMul(norm, Blossom(X(j), tau, rho[i], Bags(i))))])]

(* value at x of the spline with coefficients d of order k on the rational knots rho that are multiples of 1/den: by the  *)
(* affine invariance of B-splines it is evaluated on the integer knots den * rho at den * x                              *)
ValueOnRho(d, rho, k, x, den) ==
    LET ti == [m \in 1 .. Len(rho) |-> (rho[m][1] * den) \div rho[m][2]]
        xi == RMul(R(den), x)
    IN  RSumSeq([i \in 1 .. Len(d) |-> RMul(d[i], B(ti, k, i - 1, xi, "R"))])
=============================================================================
