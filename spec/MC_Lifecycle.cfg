\* exhaustive BFS of the coarse machine, depth 4, two objects: every operation sequence of that length
SPECIFICATION Spec
CONSTANTS
  Objs = {1,2}
  Depth = 4
  ValidFiles = {1}
  InvalidFiles = {11}
  MaxFail = 1
INVARIANTS TypeOK
CHECK_DEADLOCK FALSE
