------------------------------- MODULE Stack -------------------------------
(***************************************************************************)
(* The stacking constructor  splinetable(tables, coordinates, stackOrder)  *)
(* (beyond the listed properties): N >= 2 tables of one shape become one   *)
(* table with an additional, last dimension of order stackOrder.           *)
(*                                                                         *)
(*  - two padding tables are added by linear extrapolation of the          *)
(*    coefficients:  P_lo = 2 T_1 - T_2 at 2 c_1 - c_2,                    *)
(*                   P_hi = 2 T_N - T_(N-1) at 2 c_N - c_(N-1);            *)
(*  - the KKK = N + 2 coordinates, shifted by (so-1) (c_hi - c_lo) / (2 KK),   *)
(*    are the interior knots of the new dimension; so equidistant knots    *)
(*    are prepended (step = first interior step) and one appended;         *)
(*  - coefficient (j, i) of the result is coefficient j of table i         *)
(*    (the new dimension varies fastest);                                  *)
(*  - the extents of the input dimensions are those of the first table,    *)
(*    the new dimension gets its fully supported range; no periods.        *)
(* Knots are integers here (as in Table): the generator only uses          *)
(* coordinates for which the shift is an integer.                          *)
(***************************************************************************)
EXTENDS Table

SameShape(T, U) == T.ndim = U.ndim /\ T.order = U.order /\ [d \in 1 .. T.ndim |-> Len(T.knots[d])] = [d \in 1 .. U.ndim |-> Len(U.knots[d])]
Stackable(tables, coords, so) ==
    /\ Len(tables) >= 2 /\ Len(coords) = Len(tables) /\ so >= 0
    /\ \A i \in 1 .. Len(tables) : tables[i].ndim >= 1 /\ SameShape(tables[i], tables[1])

ExtCoords(c) == <<2 * c[1] - c[2]>> \o c \o <<2 * c[Len(c)] - c[Len(c) - 1]>>
ShiftNum(c, so) == (so - 1) * (ExtCoords(c)[Len(c) + 2] - ExtCoords(c)[1])
IntegerShift(c, so) == ShiftNum(c, so) % (2 * (Len(c) + 2)) = 0
StackKnots(c, so) ==
    LET e == ExtCoords(c)  KK == Len(e)
        sh == ShiftNum(c, so) \div (2 * KK)
        mid == [i \in 1 .. KK |-> e[i] + sh]
        step == mid[2] - mid[1]
    IN  [i \in 1 .. so |-> mid[1] + (i - 1 - so) * step] \o mid \o <<2 * mid[KK] - mid[KK - 1]>>

Extrapolate(T, U) == [f \in 1 .. Len(T.coef) |-> 2 * U.coef[f] - T.coef[f]]      \* 2 U - T

StackOf(tables, coords, so) ==
    LET N == Len(tables)  KK == N + 2  T1 == tables[1]  n == T1.ndim
        cf == <<Extrapolate(tables[2], tables[1])>> \o [i \in 1 .. N |-> tables[i].coef] \o <<Extrapolate(tables[N - 1], tables[N])>>
        kn == StackKnots(coords, so)
        nax == T1.naxes \o <<KK>>
    IN  [ndim |-> n + 1,
         order |-> T1.order \o <<so>>,
         knots |-> T1.knots \o <<kn>>,
         naxes |-> nax,
         strides |-> StridesOf(nax),
         extents |-> T1.extents \o <<<<kn[so + 1], kn[Len(kn) - so]>>>>,
         periods |-> [d \in 1 .. n + 1 |-> -1],
         coef |-> [f \in 1 .. Len(T1.coef) * KK |-> cf[((f - 1) % KK) + 1][((f - 1) \div KK) + 1]]]

StackOp(tables, coords, so) ==
    IF Stackable(tables, coords, so) THEN [ok |-> TRUE, table |-> StackOf(tables, coords, so)] ELSE [ok |-> FALSE]
=============================================================================
