---------------------------- MODULE Trace_Block3 ----------------------------
(***************************************************************************)
(* Trace validation of nnls_normal_block3: the per-phase log written by    *)
(* the hook in src/fitter/nnls.c (guard PHOTOSPLINE_VERIF) is replayed     *)
(* against the algorithm of module Block3.  Every recorded phase must be   *)
(* a step of the model from the model's current state: the same branch,    *)
(* the same passive set and pending changes, the same point (to 2^-15),    *)
(* the same signs of the multipliers.  Where the exact arithmetic has a    *)
(* tie, TLC picks the reading that explains the record (Block3!SolveWith). *)
(* Executions are concatenated; an execution whose next record cannot be   *)
(* explained is reported once (with the line) and skipped to its end.      *)
(***************************************************************************)
EXTENDS Block3, Json, IOUtils, TLC
TraceLog == ndJsonDeserialize(IOEnv.TRACE)
VARIABLES l, bad, lost
tvars == <<pvars, svars, l, bad, lost>>
Ev == TraceLog[l]
SetOf(s) == {s[i] : i \in 1 .. Len(s)}
AbsI(a) == IF a < 0 THEN -a ELSE a
(* |q/65536 - v| <= 2/65536 for every component; v exact rational <<num, den>> *)
XClose(v, q) == Len(q) = Len(v) /\ \A i \in 1 .. Len(v) : /\ AbsI(q[i]) <= 1000000000 \div v[i][2]    \* the driver logs NaN / huge values as +-2*10^9: never close, and no 32-bit overflow below
                                                          /\ AbsI(q[i] * v[i][2] - v[i][1] * 65536) <= 2 * v[i][2]
YMatch(v, c) == Len(c) = Len(v) /\ \A i \in 1 .. Len(v) : c[i] = RSign(v[i])

Consume == l' = l + 1
Keep == UNCHANGED <<bad, lost>>

TInit == l = 1 /\ bad = <<>> /\ lost = TRUE
         /\ n = 1 /\ A = <<<<One>>>> /\ b = <<Zero>> /\ x = <<Zero>> /\ y = <<Zero>> /\ F = {} /\ H1 = {} /\ H2 = {} /\ solved = TRUE /\ pc = "done" /\ iter = 0 /\ branch = "none"

TStart == l <= Len(TraceLog) /\ Ev.e = "start" /\ Consume /\ bad' = bad /\ lost' = FALSE
          /\ n' = Ev.n /\ A' = [i \in 1 .. Ev.n |-> [j \in 1 .. Ev.n |-> R(Ev.A[i][j])]] /\ b' = [i \in 1 .. Ev.n |-> R(Ev.b[i])]
          /\ x' = [i \in 1 .. Ev.n |-> Zero] /\ y' = [i \in 1 .. Ev.n |-> R(-Ev.b[i])]
          /\ F' = {} /\ H1' = {} /\ H2' = {} /\ solved' = TRUE /\ pc' = "release" /\ iter' = 0 /\ branch' = "start"

TRelease == l <= Len(TraceLog) /\ ~lost /\ Ev.e = "release" /\ Consume /\ Keep
            /\ XClose(x, Ev.x) /\ YMatch(y, Ev.y) /\ solved = Ev.solved
            /\ Release
            /\ IF pc' = "solve" THEN H1' = SetOf(Ev.H1) /\ H2' = SetOf(Ev.H2) ELSE Ev.H2 = <<>>

TSolve == l <= Len(TraceLog) /\ ~lost /\ Ev.e \in {"accept", "boundary", "walk", "walk-last"} /\ Consume /\ Keep
          /\ pc = "solve"
          /\ LET F2 == (F \ H1) \cup H2
                 sol == IF F2 = {} THEN [i \in All |-> Zero] ELSE SolveOn(A, b, n, F2)
             IN  \E inf \in SUBSET F2 :
                    /\ Between(inf, NegSet(F2, sol), NonPosSet(F2, sol))
                    /\ IF inf # {} /\ inf # {i \in inf : x[i] = Zero}
                       THEN \E w \in WalkOutcomes(F2, sol, inf) : SolveWith(inf, w)
                       ELSE SolveWith(inf, [pt |-> x, clipped |-> {}, feasible |-> TRUE])
          /\ branch' = Ev.e /\ F' = SetOf(Ev.F) /\ H1' = SetOf(Ev.H1) /\ XClose(x', Ev.x) /\ solved' = Ev.solved

TUpdate == l <= Len(TraceLog) /\ ~lost /\ Ev.e = "update" /\ Consume /\ Keep
           /\ Update /\ YMatch(y', Ev.y) /\ XClose(x', Ev.x)

TEnd == l <= Len(TraceLog) /\ ~lost /\ Ev.e = "end" /\ Consume /\ UNCHANGED <<pvars, svars>> /\ lost' = TRUE
        /\ bad' = IF pc = "done" /\ Ev.ok /\ XClose(x, Ev.x) THEN bad
                  ELSE Append(bad, [line |-> l, kind |-> "wrong-end", e |-> Ev.e, pc |-> pc])
Explained == TRelease \/ TSolve \/ TUpdate
(* a record that is no step of the model: report it once, then skip to the next execution *)
TDeviate == l <= Len(TraceLog) /\ ~lost /\ Ev.e \notin {"start", "end"} /\ ~ENABLED Explained /\ Consume /\ UNCHANGED <<pvars, svars>>
            /\ lost' = TRUE /\ bad' = Append(bad, [line |-> l, kind |-> "unexplained-step", e |-> Ev.e, pc |-> pc])
TSkip == l <= Len(TraceLog) /\ lost /\ Ev.e # "start" /\ Consume /\ Keep /\ UNCHANGED <<pvars, svars>>
TNext == TStart \/ Explained \/ TEnd \/ TDeviate \/ TSkip
TSpec == TInit /\ [][TNext]_tvars

(* design invariants evaluated on every state the real execution passed through *)
TInv == (~lost /\ pc \in {"release", "solve", "update", "done"}) => NonNegative /\ Consistent /\ Optimal
Report == l = Len(TraceLog) + 1 => PrintT(ToJson([deviations |-> bad, lines |-> Len(TraceLog)]))
=============================================================================
