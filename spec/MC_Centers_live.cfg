\* liveness: the lookup terminates (weak fairness on Next), small configuration
SPECIFICATION Spec
CONSTANTS
  Orders = {0,1,2}
  ExtraLens = {0,1,2}
  Gaps = {0,1}
  RejectNaN = TRUE
  EmitJson = FALSE
  MarginElseIf = FALSE
INVARIANTS C04Post Bounded
PROPERTY Terminates
CHECK_DEADLOCK FALSE
