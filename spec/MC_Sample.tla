----------------------------- MODULE MC_Sample -----------------------------
(* a small instance of Sample: six positions (one unusable; densities positive, negative, +0 and -0), proposal   *)
(* densities 1/2 .. 3, four uniforms; every behaviour for NResults results with Burnin extra proposals each      *)
EXTENDS Sample
MCUsable(p) == p # 1
MCDens(p) == CASE p = 1 -> <<1, 1, 1>> [] p = 2 -> <<0, 1, 1>> [] p = 3 -> <<3, 16, 1>> [] p = 4 -> <<-1, 4, -1>>
               [] p = 5 -> <<1, 2, 1>> [] p = 6 -> <<0, 1, -1>> [] OTHER -> <<5, 16, 1>>
MCProp(p) == CASE p = 1 -> <<1, 2>> [] p = 2 -> <<1, 1>> [] p = 3 -> <<2, 1>> [] p = 4 -> <<3, 1>> [] p = 5 -> <<1, 1>>
               [] p = 6 -> <<1, 2>> [] OTHER -> <<3, 2>>
MCUniforms == {<<0, 1>>, <<1, 8>>, <<1, 2>>, <<7, 8>>}
(* the initial point may take any number of proposals: bounded here *)
Bounded == nS <= 7
(* the classic slip: the ratio of the proposal densities the wrong way round *)
BadOdds(px, pxp, propx, propxp) ==
    IF px[1] # 0 THEN <<"fin", RMul(RDiv(DRat(pxp), DRat(px)), RDiv(propxp, propx))>>
    ELSE IF pxp[1] = 0 THEN <<"nan">>
    ELSE IF DSign(pxp) * DSign(px) > 0 THEN <<"pinf">> ELSE <<"ninf">>
=============================================================================
