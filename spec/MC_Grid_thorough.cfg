SPECIFICATION Spec
CONSTANTS MaxCase = 1
INVARIANTS Emit
CHECK_DEADLOCK FALSE
