SPECIFICATION Spec
CONSTANTS MaxCase = 3
INVARIANTS Emit
CHECK_DEADLOCK FALSE
