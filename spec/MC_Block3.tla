----------------------------- MODULE MC_Block3 -----------------------------
(* all small integer SPD systems (the catalogue of MC_Nnls) run through the algorithm of Block3 *)
EXTENDS Block3, TLC
CONSTANTS Thorough, MaxN
Diag == IF Thorough THEN 1 .. 4 ELSE 1 .. 3
Off == IF Thorough THEN -2 .. 3 ELSE -2 .. 2
Rhs == IF Thorough THEN -2 .. 3 ELSE {-2, 0, 1, 3}
MatOf(nn, d, o) == [i \in 1 .. nn |-> [j \in 1 .. nn |->
                      IF i = j THEN R(d[i])
                      ELSE LET lo == IF i < j THEN i ELSE j  hi == IF i < j THEN j ELSE i
                               idx == IF nn = 2 THEN 1 ELSE (IF lo = 1 THEN hi - 1 ELSE 3)
                           IN  R(o[idx])]]
VARIABLE q0                     \* objective at the previous Update (monotone descent)
vars == <<pvars, svars, q0>>
(* level 0: size; level 1: matrix; level 2: right-hand side and start of the run (three levels so that TLC's workers share the work) *)
Init == n \in 1 .. MaxN /\ A = <<>> /\ b = <<>> /\ x = <<>> /\ y = <<>> /\ F = {} /\ H1 = {} /\ H2 = {} /\ solved = TRUE /\ pc = "pickA" /\ iter = 0
        /\ branch = "none" /\ q0 = Zero
PickA == pc = "pickA" /\ \E d \in [1 .. n -> Diag] : \E o \in [1 .. (n * (n - 1)) \div 2 -> Off] :
            /\ SPD(MatOf(n, d, o), n) /\ A' = MatOf(n, d, o) /\ pc' = "pickB"
            /\ UNCHANGED <<n, b, x, y, F, H1, H2, solved, iter, branch, q0>>
PickB == pc = "pickB" /\ \E v \in [1 .. n -> Rhs] :
            /\ b' = [i \in 1 .. n |-> R(v[i])] /\ x' = [i \in 1 .. n |-> Zero] /\ y' = [i \in 1 .. n |-> R(-v[i])]
            /\ pc' = "release" /\ branch' = "start" /\ UNCHANGED <<n, A, F, H1, H2, solved, iter, q0>>
Run == pc \in {"release", "solve", "update"} /\ Step /\ q0' = IF pc = "update" THEN Q(x') ELSE q0
Next == PickA \/ PickB \/ Run
Spec == Init /\ [][Next]_vars
FairSpec == Spec /\ WF_vars(Next)

Running == pc \in {"release", "solve", "update", "done", "giveup"}
Inv == Running => NonNegative /\ Consistent /\ Optimal /\ NeverGivesUp /\ StrictIsAnOutcome
Descent == [][pc = "update" /\ pc' = "release" => RLe(Q(x'), q0)]_vars
Terminates == <>(pc \in {"done", "giveup"})
(* reachability probes (expected to be violated when the branch is reachable) *)
NoWalkLast == branch # "walk-last"
NoWalk == branch # "walk"
=============================================================================
