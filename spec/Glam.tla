-------------------------------- MODULE Glam --------------------------------
(***************************************************************************)
(* The penalised weighted least-squares problem that splinetable::fit      *)
(* solves (properties C09, C10), in exact rationals:                       *)
(*     minimise  sum_k w_k (z_k - s(x_k))^2                                *)
(*             + sum_d lambda_d * sum_j (c^(p_d)_{..j..})^2                *)
(* where c^(p) are the B-spline coefficients of the p-th partial           *)
(* derivative along d.  The normal equations are                           *)
(*     (B'WB + sum_d lambda_d P_d) c = B'Wz,   P_d = I x .. x D'D x .. x I *)
(* This module provides the exact per-dimension ingredients: the basis     *)
(* matrix (from the Cox-de Boor definition in BSplineMath) and the         *)
(* derivative-coefficient matrix D (from the derivative formula of a       *)
(* B-spline series, written independently of divided_diffs in glam.c).     *)
(* The driver combines them (Kronecker structure) and solves in long       *)
(* double; TLC does not solve linear systems.                              *)
(***************************************************************************)
EXTENDS BSplineMath

NSpl(t, n) == Len(t) - n - 1

(* basis matrix: row k = abscissa xs[k], column j+1 = B_{j,n}(xs[k]); right-continuous as the fitter's bspline() *)
BasisMat(t, n, xs) == [k \in 1 .. Len(xs) |-> [j \in 1 .. NSpl(t, n) |-> B(t, n, j - 1, xs[k], "R")]]

(***************************************************************************)
(* One differentiation step on coefficient vectors.  c has indices          *)
(* q-1 .. m-1 (0-based, m = NSpl) after q-1 steps, the spline degree is    *)
(* n-q+1; step q gives indices q .. m-1:                                   *)
(*   c^(q)_j = (n-q+1) (c^(q-1)_j - c^(q-1)_{j-1}) / (t_{j+n-q+1} - t_j)   *)
(* As a matrix acting on the ORIGINAL coefficients: D^(q) has m-q rows.    *)
(***************************************************************************)
RECURSIVE DerivMat(_, _, _)
DerivMat(t, n, p) ==
    LET m == NSpl(t, n) IN
    IF p = 0 THEN [r \in 1 .. m |-> [j \in 1 .. m |-> IF r = j THEN One ELSE Zero]]
    ELSE LET prev == DerivMat(t, n, p - 1)          \* (m-p+1) rows: row i <-> coefficient index (p-1)+(i-1)
             deg == n - p + 1
         IN  [r \in 1 .. m - p |->
                 LET jj == p + (r - 1)                                        \* coefficient index of the new row (0-based)
                     den == RSub(K(t, jj + deg), K(t, jj))
                     f == RDiv(R(deg), den)
                 IN  [col \in 1 .. m |-> RMul(f, RSub(prev[r + 1][col], prev[r][col]))]]

(***************************************************************************)
(* divided_diffs(order, porder, j, knots, out) of glam.c, transcribed: the  *)
(* p+1 non-zero entries of row j of the finite-difference matrix the code   *)
(* builds (de Boor X.16).  MC_Glam checks that they are row j of DerivMat.  *)
(***************************************************************************)
RECURSIVE DividedDiffs(_, _, _, _)
DividedDiffs(t, n, p, j) ==           \* j 0-based row, returns a sequence of p+1 rationals
    IF p = 0 THEN <<One>>
    ELSE LET a == DividedDiffs(t, n, p - 1, j + 1)
             b == DividedDiffs(t, n, p - 1, j)
             delta == RDiv(RSub(K(t, j + n + 1), K(t, j + p)), R(n - (p - 1)))
         IN  [i \in 1 .. p + 1 |->
                 IF i = 1 THEN RDiv(RNeg(b[1]), delta)
                 ELSE IF i = p + 1 THEN RDiv(a[p], delta)
                 ELSE RDiv(RSub(a[i - 1], b[i]), delta)]
DividedDiffsRowOK(t, n, p, j) ==
    LET row == DerivMat(t, n, p)[j + 1]  dd == DividedDiffs(t, n, p, j)
    IN  \A col \in 1 .. NSpl(t, n) : row[col] = IF col >= j + 1 /\ col <= j + p + 1 THEN dd[col - j] ELSE Zero

(* Gram matrix of the derivative coefficients: P = D'D *)
PenaltyMat(t, n, p) ==
    LET D == DerivMat(t, n, p)
        m == NSpl(t, n)
    IN  [i \in 1 .. m |-> [j \in 1 .. m |-> RSumSeq([r \in 1 .. Len(D) |-> RMul(D[r][i], D[r][j])])]]

MatVec(M, v) == [i \in 1 .. Len(M) |-> RSumSeq([j \in 1 .. Len(v) |-> RMul(M[i][j], v[j])])]

(* Greville abscissae: the coefficients that represent f(x) = x *)
Greville(t, n) == [j \in 1 .. NSpl(t, n) |->
                     IF n = 0 THEN R(0) ELSE RDiv(RSumSeq([i \in 1 .. n |-> K(t, j - 1 + i)]), R(n))]
IsZeroVec(v) == \A i \in 1 .. Len(v) : v[i] = Zero
=============================================================================
