\* exhaustive: every reachable store of at most MaxLen entries over a reduced alphabet
SPECIFICATION Spec
CONSTANTS
  Keys = {1,3,5,9}
  Vals = {1,6,9,10,12}
  MaxLen = 3
INVARIANTS NoDuplicateKeys OnlyStorable LookupIsLastWrite
CONSTRAINT Bound
CHECK_DEADLOCK FALSE
