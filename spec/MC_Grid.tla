------------------------------ MODULE MC_Grid ------------------------------
(***************************************************************************)
(* Grid evaluation (property C17): for a table T and one abscissa list per *)
(* dimension, the value at index tuple idx is the tensor-product sum       *)
(* Table!EvalTable at the point (coords[1][idx[1]], ...), for every point  *)
(* strictly inside the knot range in every dimension.  TLC evaluates the   *)
(* definition exactly for small tables with sparse integer coefficients    *)
(* and grids with unsorted, repeated, outside and single-point axes, and   *)
(* emits the expected entries for the conformance driver.                  *)
(***************************************************************************)
EXTENDS GridAlgo, TLC, Json
CONSTANTS MaxCase

AxisK(id) == CASE id = 1 -> [n |-> 0, t |-> <<0, 1, 3, 4>>]
               [] id = 2 -> [n |-> 1, t |-> <<0, 1, 3, 4, 6>>]
               [] id = 3 -> [n |-> 2, t |-> <<-1, 0, 1, 3, 4, 6, 7>>]
               [] OTHER -> [n |-> 3, t |-> <<0, 1, 2, 3, 5, 6, 8, 9>>]
(* abscissa lists (rationals as <<num, den>>): unsorted, repeated, outside the knot range, on the end knots, single point *)
GridK(id, a) ==
    LET lo == a.t[1]  hi == a.t[Len(a.t)] IN
    CASE id = 1 -> <<Norm(2 * lo + 1, 2), Norm(2 * lo + 3, 2), Norm(2 * hi - 1, 2)>>                       \* sorted, inside
      [] id = 2 -> <<Norm(2 * hi - 1, 2), Norm(2 * lo + 1, 2), Norm(2 * hi - 1, 2), Norm(4 * lo + 5, 4)>>   \* unsorted, repeated
      [] id = 3 -> <<R(hi + 2), Norm(2 * lo + 3, 2), R(lo - 1), R(lo + 1), Norm(2 * hi - 3, 2)>>             \* outside points before interior ones
      [] id = 4 -> <<Norm(4 * lo + 3, 4)>>                                                                   \* single point
      [] id = 6 -> <<R(hi + 1), R(lo - 2)>>                                                                   \* every point outside the knot range: nothing contributes along this axis
      [] OTHER -> <<R(lo), Norm(2 * lo + 1, 2), R(hi)>>                                                      \* the end knots themselves (not strictly inside)
SumSeqI(q) == LET RECURSIVE F(_) F(z) == IF z = <<>> THEN 0 ELSE Head(z) + F(Tail(z)) IN F(q)
Cases == {<<a, g>> : a \in [1 .. 1 -> 1 .. 4], g \in [1 .. 1 -> 1 .. 6]} \cup
         {c \in {<<a, g>> : a \in [1 .. 2 -> 1 .. 4], g \in [1 .. 2 -> 1 .. 6]} : (SumSeqI(c[1]) + 2 * SumSeqI(c[2])) % MaxCase = 0} \cup
         {c \in {<<a, g>> : a \in [1 .. 3 -> 1 .. 3], g \in [1 .. 3 -> 1 .. 6]} : (SumSeqI(c[1]) * 3 + SumSeqI(c[2])) % (7 * MaxCase) = 1} \cup
         \* four dimensions: the two smallest axes, short abscissa lists (sorted / unsorted+repeated / single point)
         {c \in {<<a, g>> : a \in [1 .. 4 -> 1 .. 2], g \in [1 .. 4 -> {1, 2, 4}]} : (SumSeqI(c[1]) * 5 + SumSeqI(c[2]) * 3 + c[2][1] + 2 * c[1][4]) % (23 * MaxCase) = 2}
VARIABLE cs
AxesOf == {c[1] : c \in Cases}
Init == cs \in {<<a>> : a \in AxesOf}
Next == Len(cs) = 1 /\ \E c \in Cases : c[1] = cs[1] /\ cs' = c
Spec == Init /\ [][Next]_cs

TableOf(axes) ==
    LET nd == Len(axes)
        nax == [d \in 1 .. nd |-> Len(AxisK(axes[d]).t) - AxisK(axes[d]).n - 1]
    IN  [ndim |-> nd, order |-> [d \in 1 .. nd |-> AxisK(axes[d]).n], knots |-> [d \in 1 .. nd |-> AxisK(axes[d]).t], naxes |-> nax,
         strides |-> StridesOf(nax), extents |-> <<>>, periods |-> <<>>,
         coef |-> [f \in 1 .. ProdSeq(nax) |-> IF (f * 7) % 3 = 0 THEN 0 ELSE ((f * 5) % 7) - 3]]      \* sparse: a third of the coefficients vanish
Inside(T, x) == \A d \in 1 .. T.ndim : RLt(K(T.knots[d], 0), x[d]) /\ RLt(x[d], K(T.knots[d], Len(T.knots[d]) - 1))
RatJ(r) == <<r[1], r[2]>>
Emit == Len(cs) = 2 =>
    LET axes == cs[1]  gids == cs[2]  T == TableOf(axes)  nd == T.ndim
        coords == [d \in 1 .. nd |-> GridK(gids[d], AxisK(axes[d]))]
        lens == [d \in 1 .. nd |-> Len(coords[d])]
        total == ProdSeq(lens)
        IdxOf(f) == Unflatten(f - 1, lens)
        Pt(idx) == [d \in 1 .. nd |-> coords[d][idx[d] + 1]]
        entries == [f \in 1 .. total |-> LET idx == IdxOf(f) IN
                       IF Inside(T, Pt(idx)) THEN [idx |-> idx, inside |-> TRUE, val |-> RatJ(EvalTable(T, Pt(idx)))]
                       ELSE [idx |-> idx, inside |-> FALSE, val |-> <<0, 1>>]]
        (* the transcribed algorithm (GridAlgo): ranges = grid lengths, indices in range and unique, and at every grid point the  *)
        (* value of the right-continuous tensor-product sum - which is the table's value wherever the point is strictly inside  *)
        G == GridEvalAlgo(T, coords)
        RightSum(x) == LET RECURSIVE S(_) S(f) == IF f > Len(T.coef) THEN Zero ELSE
                               LET idx == Unflatten(f - 1, T.naxes)
                                   RECURSIVE Pr(_) Pr(d) == IF d > nd THEN One ELSE RMul(B(T.knots[d], T.order[d], idx[d], x[d], "R"), Pr(d + 1))
                               IN  RAdd(RMul(R(T.coef[f]), Pr(1)), S(f + 1))
                       IN S(1)
        AlgoOK == /\ G.ranges = lens /\ NoDuplicates(G) /\ IndicesInRange(G)
                  /\ \A f \in 1 .. total : At(G, IdxOf(f)) = RightSum(Pt(IdxOf(f)))
    IN  /\ Assert(AlgoOK, <<"grideval algorithm differs from the tensor-product sum", axes, gids>>)
        /\ PrintT(ToJson([order |-> T.order, knots |-> T.knots, coef |-> T.coef,
                          coords |-> [d \in 1 .. nd |-> [k \in 1 .. lens[d] |-> RatJ(coords[d][k])]], entries |-> entries]))
=============================================================================
