----------------------------- MODULE FitsLayout -----------------------------
(***************************************************************************)
(* The documented FITS layout of a spline table (properties C06, C07) at   *)
(* the level of header-data units:                                         *)
(*   file = sequence of [name, bitpix, axes, cards, data]                  *)
(* Floating-point words are opaque strings (the hexadecimal bit patterns   *)
(* logged by the driver), so "bit for bit" is string equality.             *)
(*   table T = [ndim, order, naxes, knots, coef, extents, periods, aux]    *)
(* extents / periods are <<>> when the table has none.                     *)
(* WriteT(T) is the file the writer must produce; ReadF(F) the table the   *)
(* reader must build from a file in this layout, including the legacy      *)
(* variants (single ORDER key, no EXTENTS, no PERIODn, extensions in any    *)
(* order).                                                                 *)
(***************************************************************************)
EXTENDS Integers, Sequences, FiniteSets, TLC

Reverse(s) == [i \in 1 .. Len(s) |-> s[Len(s) + 1 - i]]
RECURSIVE ProdSeq(_)
ProdSeq(s) == IF s = <<>> THEN 1 ELSE Head(s) * ProdSeq(Tail(s))
RECURSIVE Flat2(_)
Flat2(ss) == IF ss = <<>> THEN <<>> ELSE Head(ss) \o Flat2(Tail(ss))
Key(prefix, i) == prefix \o ToString(i)
ZeroWord == "0000000000000000"

Reserved(k) == \E p \in {"BITPIX", "SIMPLE", "TYPE", "ORDER", "NAXIS", "PERIOD", "EXTEND", "COMMENT"} :
                   Len(k) >= Len(p) /\ SubSeq(k, 1, Len(p)) = p

(* ------------------------------------------------------------------ writer *)
WriteT(T) ==
    LET primary == [name |-> "PRIMARY", bitpix |-> -32, axes |-> Reverse(T.naxes),
                    cards |-> <<<<"TYPE", "Spline Coefficient Table">>>>
                              \o [d \in 1 .. T.ndim |-> <<Key("ORDER", d - 1), ToString(T.order[d])>>]
                              \o (IF T.periods = <<>> THEN <<>> ELSE [d \in 1 .. T.ndim |-> <<Key("PERIOD", d - 1), T.periods[d]>>])
                              \o T.aux,
                    data |-> T.coef]
        knotsH == [d \in 1 .. T.ndim |-> [name |-> Key("KNOTS", d - 1), bitpix |-> -64, axes |-> <<Len(T.knots[d])>>, cards |-> <<>>, data |-> T.knots[d]]]
        extH == IF T.extents = <<>> THEN <<>>
                ELSE <<[name |-> "EXTENTS", bitpix |-> -64, axes |-> <<2 * T.ndim>>, cards |-> <<>>, data |-> Flat2(T.extents)]>>
    IN  <<primary>> \o knotsH \o extH

(* ------------------------------------------------------------------ reader *)
HasCard(h, k) == \E i \in 1 .. Len(h.cards) : h.cards[i][1] = k
CardVal(h, k) == h.cards[CHOOSE i \in 1 .. Len(h.cards) : h.cards[i][1] = k][2]
HasHdu(F, n) == \E i \in 2 .. Len(F) : F[i].name = n
Hdu(F, n) == F[CHOOSE i \in 2 .. Len(F) : F[i].name = n /\ \A j \in 2 .. i - 1 : F[j].name # n]
RECURSIVE ToInt(_)
Digit(c) == CHOOSE d \in 0 .. 9 : ToString(d) = c
ToInt(s) == IF s = "" THEN 0 ELSE 10 * ToInt(SubSeq(s, 1, Len(s) - 1)) + Digit(SubSeq(s, Len(s), Len(s)))

Readable(F) ==
    /\ Len(F) >= 1 /\ F[1].bitpix = -32 /\ Len(F[1].axes) >= 1
    /\ (HasCard(F[1], "ORDER") \/ \A d \in 1 .. Len(F[1].axes) : HasCard(F[1], Key("ORDER", d - 1)))
    /\ \A d \in 1 .. Len(F[1].axes) : HasHdu(F, Key("KNOTS", d - 1))

ReadF(F) ==
    LET p == F[1]
        n == Len(p.axes)
        ord == IF HasCard(p, "ORDER") THEN [d \in 1 .. n |-> ToInt(CardVal(p, "ORDER"))]
               ELSE [d \in 1 .. n |-> ToInt(CardVal(p, Key("ORDER", d - 1)))]
        kn == [d \in 1 .. n |-> Hdu(F, Key("KNOTS", d - 1)).data]
        useExt == HasHdu(F, "EXTENTS") /\ Hdu(F, "EXTENTS").axes = <<2 * n>>
    IN  [ndim |-> n, order |-> ord, naxes |-> Reverse(p.axes), knots |-> kn, coef |-> p.data,
         extents |-> IF useExt THEN [d \in 1 .. n |-> <<Hdu(F, "EXTENTS").data[2 * d - 1], Hdu(F, "EXTENTS").data[2 * d]>>]
                     ELSE [d \in 1 .. n |-> <<kn[d][ord[d] + 1], kn[d][Len(kn[d]) - ord[d]]>>],       \* made up from the knots
         periods |-> [d \in 1 .. n |-> IF HasCard(p, Key("PERIOD", d - 1)) THEN CardVal(p, Key("PERIOD", d - 1)) ELSE ZeroWord],
         aux |-> SelectSeq(p.cards, LAMBDA c : ~Reserved(c[1]))]

(* what a table looks like after write + read: the reader always materialises periods *)
AfterRoundTrip(T) == [T EXCEPT !.periods = IF T.periods = <<>> THEN [d \in 1 .. T.ndim |-> ZeroWord] ELSE T.periods,
                               !.extents = IF T.extents = <<>> THEN [d \in 1 .. T.ndim |-> <<T.knots[d][T.order[d] + 1], T.knots[d][Len(T.knots[d]) - T.order[d]]>>] ELSE T.extents]

(* well-formedness of a loaded table (C07), on the projection W = [ndim, order, naxes, knots (integers, 1/1000 units), coef (count)] *)
IsNum(v) == v > -2000000000 /\ v < 2000000000      \* the driver encodes NaN / +-inf / out-of-range knots as sentinels beyond this range
WellFormedShape(T) ==
    /\ T.ndim >= 1 /\ Len(T.order) = T.ndim /\ Len(T.naxes) = T.ndim /\ Len(T.knots) = T.ndim
    /\ \A d \in 1 .. T.ndim : T.naxes[d] = Len(T.knots[d]) - T.order[d] - 1 /\ T.naxes[d] >= T.order[d] + 1
    /\ T.coef = ProdSeq(T.naxes)                  \* here coef is the number of coefficients the table holds
KnotsOrdered(T) == \A d \in 1 .. T.ndim : (\A j \in 1 .. Len(T.knots[d]) : IsNum(T.knots[d][j]))
                                          /\ (\A j \in 1 .. Len(T.knots[d]) - 1 : T.knots[d][j] <= T.knots[d][j + 1])
=============================================================================
