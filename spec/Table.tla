------------------------------- MODULE Table -------------------------------
(***************************************************************************)
(* The abstract spline table and the operations that rearrange it.         *)
(*   T = [ndim, order, knots, naxes, strides, extents, periods, coef]      *)
(* order/naxes/strides: sequences of naturals; knots: sequence of integer  *)
(* knot sequences; extents: sequence of <<lo, hi>>; periods: sequence;     *)
(* coef: the row-major coefficient tensor as a flat sequence.              *)
(* Per-dimension attributes the driver projects exactly (doubles are       *)
(* mapped to integers by the projection, knots are integer valued).        *)
(***************************************************************************)
EXTENDS BSplineMath

RECURSIVE ProdSeq(_)
ProdSeq(s) == IF s = <<>> THEN 1 ELSE Head(s) * ProdSeq(Tail(s))

StridesOf(naxes) == [i \in 1 .. Len(naxes) |-> ProdSeq(SubSeq(naxes, i + 1, Len(naxes)))]
NCoef(T) == ProdSeq(T.naxes)

WellFormed(T) ==
    /\ T.ndim >= 1 /\ Len(T.order) = T.ndim /\ Len(T.knots) = T.ndim /\ Len(T.naxes) = T.ndim
    /\ \A d \in 1 .. T.ndim :
          /\ T.naxes[d] = Len(T.knots[d]) - T.order[d] - 1
          /\ T.naxes[d] >= T.order[d] + 1
          /\ \A j \in 1 .. Len(T.knots[d]) - 1 : T.knots[d][j] <= T.knots[d][j + 1]
    /\ T.strides = StridesOf(T.naxes)
    /\ Len(T.coef) = NCoef(T)

(* index tuple (0-based entries, 1-based positions) of flat offset f (0-based) *)
Unflatten(f, naxes) == [d \in 1 .. Len(naxes) |-> (f \div StridesOf(naxes)[d]) % naxes[d]]
Flatten(idx, naxes) == LET s == StridesOf(naxes)
                           RECURSIVE Acc(_)
                           Acc(d) == IF d > Len(naxes) THEN 0 ELSE idx[d] * s[d] + Acc(d + 1)
                       IN  Acc(1)

(***************************************************************************)
(* permuteDimensions(p): new dimension i is old dimension p[i] (0-based).  *)
(***************************************************************************)
IsPermutation(p, n) == Len(p) = n /\ {p[i] : i \in 1 .. Len(p)} = 0 .. n - 1

Permute(T, p) ==
    LET n == T.ndim
        q == [i \in 1 .. n |-> p[i] + 1]                        \* 1-based old index of new dimension i
        qinv == [d \in 1 .. n |-> CHOOSE i \in 1 .. n : q[i] = d]
        nax2 == [i \in 1 .. n |-> T.naxes[q[i]]]
    IN  [ndim |-> n,
         order |-> [i \in 1 .. n |-> T.order[q[i]]],
         knots |-> [i \in 1 .. n |-> T.knots[q[i]]],
         naxes |-> nax2,
         strides |-> StridesOf(nax2),
         extents |-> [i \in 1 .. n |-> T.extents[q[i]]],
         periods |-> [i \in 1 .. n |-> T.periods[q[i]]],
         coef |-> [f \in 1 .. Len(T.coef) |->
                     LET idx2 == Unflatten(f - 1, nax2)
                         idx == [d \in 1 .. n |-> idx2[qinv[d]]]
                     IN  T.coef[Flatten(idx, T.naxes) + 1]]]

(* the relocation loop of permuteDimensions as the code performs it: a scatter - every old position is decomposed with the old     *)
(* strides and sent to the sum of its indices times the NEW stride of the dimension each index moves to (iperm)                  *)
PermuteScatterCoef(T, p) ==
    LET n == T.ndim
        q == [i \in 1 .. n |-> p[i] + 1]
        iperm == [d \in 1 .. n |-> CHOOSE i \in 1 .. n : q[i] = d]                   \* new position of old dimension d
        nax2 == [i \in 1 .. n |-> T.naxes[q[i]]]
        s2 == StridesOf(nax2)
        NewPos(pos) == LET RECURSIVE S(_) S(d) == IF d > n THEN 0 ELSE ((pos \div T.strides[d]) % T.naxes[d]) * s2[iperm[d]] + S(d + 1) IN S(1)
        img == [pos \in 0 .. Len(T.coef) - 1 |-> NewPos(pos)]
    IN  [f \in 1 .. Len(T.coef) |-> T.coef[(CHOOSE pos \in 0 .. Len(T.coef) - 1 : img[pos] = f - 1) + 1]]
ScatterIsBijection(T, p) ==
    LET n == T.ndim  q == [i \in 1 .. n |-> p[i] + 1]  iperm == [d \in 1 .. n |-> CHOOSE i \in 1 .. n : q[i] = d]
        s2 == StridesOf([i \in 1 .. n |-> T.naxes[q[i]]])
        NewPos(pos) == LET RECURSIVE S(_) S(d) == IF d > n THEN 0 ELSE ((pos \div T.strides[d]) % T.naxes[d]) * s2[iperm[d]] + S(d + 1) IN S(1)
    IN  {NewPos(pos) : pos \in 0 .. Len(T.coef) - 1} = 0 .. Len(T.coef) - 1

(* the operation as the library must perform it: anything that is not a permutation is refused, table unchanged *)
PermuteOp(T, p) == IF IsPermutation(p, T.ndim) THEN [ok |-> TRUE, table |-> Permute(T, p)] ELSE [ok |-> FALSE, table |-> T]

InversePerm(p) == [d \in 1 .. Len(p) |-> (CHOOSE i \in 1 .. Len(p) : p[i] = d - 1) - 1]

(***************************************************************************)
(* The function the table represents: the tensor-product sum of C01.       *)
(***************************************************************************)
EvalTable(T, x) ==
    LET RECURSIVE Sum(_)
        Sum(f) == IF f > Len(T.coef) THEN Zero
                  ELSE LET idx == Unflatten(f - 1, T.naxes)
                           RECURSIVE Pr(_)
                           Pr(d) == IF d > T.ndim THEN One
                                    ELSE RMul(B(T.knots[d], T.order[d], idx[d], x[d], Side(T.knots[d], T.order[d], x[d])), Pr(d + 1))
                       IN  RAdd(RMul(R(T.coef[f]), Pr(1)), Sum(f + 1))
    IN  Sum(1)

(* equality as splinetable::operator== defines it *)
Equal(T, U) == T.ndim = U.ndim /\ T.order = U.order /\ T.naxes = U.naxes /\ T.knots = U.knots /\ T.coef = U.coef
=============================================================================
