SPECIFICATION Spec
CONSTANTS Thorough = TRUE EmitJson = TRUE
INVARIANTS Check
CHECK_DEADLOCK FALSE
