---------------------------- MODULE WalkDescents ----------------------------
(***************************************************************************)
(* The coordinator / worker hand-shake of the parallel line search in      *)
(* src/fitter/cholesky_solve.c (walk_descents + evaluate_descent), one     *)
(* action per pthread call (these are exactly the events the pthread shim  *)
(* of the conformance harness records or schedules):                       *)
(*                                                                         *)
(*   coordinator                      worker w                             *)
(*   spawn   pthread_create(w)        w0   thread starts                   *)
(*   c1      mutex_lock               w1   mutex_lock                      *)
(*   c2      state:=RUN, broadcast    w2w  cond_wait (release, sleep)      *)
(*   c3      mutex_unlock             w2r  cond_wait returns (reacquire)   *)
(*   c4      mutex_lock               w3t  mutex_unlock (TERMINATE seen)   *)
(*   c5w     cond_wait (sleep)        w3x  pthread_exit                    *)
(*   c5r     cond_wait returns        w4   mutex_unlock (RUN seen)         *)
(*   c6      mutex_unlock, read the   w5   calc_residual starts            *)
(*           residuals, decide        w5e  residual stored                 *)
(*   t1      mutex_lock               w6   mutex_lock                      *)
(*   t2      state:=TERMINATE, bcast  w7   state:=WAIT, broadcast          *)
(*   t3      mutex_unlock             w8   mutex_unlock                    *)
(*   join    pthread_join(w)                                               *)
(*                                                                         *)
(* CheckFirst = FALSE is the pinned tree: the coordinator calls            *)
(* pthread_cond_wait BEFORE it looks at the worker states (lost wake-up    *)
(* when all workers of the block finish first).  CheckFirst = TRUE is the  *)
(* repaired order (test, then wait).  Spurious = TRUE lets cond_wait       *)
(* return without a broadcast (POSIX allows it); deadlock freedom must be  *)
(* checked with Spurious = FALSE, because a correct program may not rely   *)
(* on spurious wake-ups.                                                   *)
(***************************************************************************)
EXTENDS Integers, Sequences, FiniteSets, TLC

CONSTANTS NW,         \* number of worker threads
          NA,         \* number of trial step lengths (alphas), >= 2; alpha 0 is the reference
          FirstRed,   \* least alpha index >= 1 whose residual drops below the reference, or NA if none does
          CheckFirst, Spurious

Workers == 1 .. NW
Free == -1
NBlocks == (NA + NW - 1) \div NW
AlphaOf(b, w) == b * NW + (w - 1)                 \* alpha index handed to worker w in block b
InBlock(b, w) == AlphaOf(b, w) < NA
Reduces(a) == a = FirstRed      \* only the first reducing index matters: the search stops there

VARIABLES mutex, state, alpha, result, computing, cvwait, spawned, finished,
          cpc, k, block, success, chosen, wpc, lastTh
vars == <<mutex, state, alpha, result, computing, cvwait, spawned, finished, cpc, k, block, success, chosen, wpc, lastTh>>

Init ==
    /\ mutex = Free
    /\ state = [w \in Workers |-> "WAIT"]
    /\ alpha = [w \in Workers |-> -1]
    /\ result = [w \in Workers |-> -1]
    /\ computing = [w \in Workers |-> FALSE]
    /\ cvwait = {}
    /\ spawned = [w \in Workers |-> FALSE]
    /\ finished = [w \in Workers |-> FALSE]
    /\ cpc = "spawn" /\ k = 1 /\ block = 0 /\ success = FALSE /\ chosen = -1
    /\ wpc = [w \in Workers |-> "w0"]
    /\ lastTh = 0

AllWait(b) == \A w \in Workers : InBlock(b, w) => state[w] = "WAIT"

(* ------------------------------ coordinator ------------------------------ *)
CU == <<state, alpha, result, computing, cvwait, spawned, finished, k, block, success, chosen, wpc>>

Spawn ==
    /\ cpc = "spawn"
    /\ spawned' = [spawned EXCEPT ![k] = TRUE]
    /\ k' = k + 1
    /\ cpc' = IF k = NW THEN "c1" ELSE "spawn"
    /\ UNCHANGED <<mutex, state, alpha, result, computing, cvwait, finished, block, success, chosen, wpc>>

CLock(from, to) == cpc = from /\ mutex = Free /\ mutex' = 0 /\ cpc' = to
C1 == CLock("c1", "c2") /\ UNCHANGED CU
C2 ==
    /\ cpc = "c2" /\ mutex = 0
    /\ state' = [w \in Workers |-> IF InBlock(block, w) THEN "RUN" ELSE state[w]]
    /\ alpha' = [w \in Workers |-> IF InBlock(block, w) THEN AlphaOf(block, w) ELSE alpha[w]]
    /\ cvwait' = {}                                 \* broadcast
    /\ cpc' = "c3"
    /\ UNCHANGED <<mutex, result, computing, spawned, finished, k, block, success, chosen, wpc>>
C3 == cpc = "c3" /\ mutex = 0 /\ mutex' = Free /\ cpc' = "c4" /\ UNCHANGED CU
C4 ==
    /\ cpc = "c4" /\ mutex = Free /\ mutex' = 0
    /\ cpc' = IF CheckFirst /\ AllWait(block) THEN "c6" ELSE "c5w"
    /\ UNCHANGED CU
C5w ==
    /\ cpc = "c5w" /\ mutex = 0
    /\ mutex' = Free /\ cvwait' = cvwait \cup {0} /\ cpc' = "c5r"
    /\ UNCHANGED <<state, alpha, result, computing, spawned, finished, k, block, success, chosen, wpc>>
C5r ==
    /\ cpc = "c5r" /\ mutex = Free /\ (0 \notin cvwait \/ Spurious)
    /\ mutex' = 0 /\ cvwait' = cvwait \ {0}
    /\ cpc' = IF AllWait(block) THEN "c6" ELSE "c5w"
    /\ UNCHANGED <<state, alpha, result, computing, spawned, finished, k, block, success, chosen, wpc>>
(* unlock, then read descent_trials[j].residual for the block and decide *)
BlockHasChoice(b) == \E w \in Workers : InBlock(b, w) /\ (Reduces(AlphaOf(b, w)) \/ AlphaOf(b, w) = NA - 1) /\ AlphaOf(b, w) >= 1
ChoiceIn(b) == CHOOSE a \in 1 .. NA - 1 :
                  /\ \E w \in Workers : InBlock(b, w) /\ AlphaOf(b, w) = a
                  /\ (Reduces(a) \/ a = NA - 1)
                  /\ \A a2 \in 1 .. a - 1 : (\E w \in Workers : InBlock(b, w) /\ AlphaOf(b, w) = a2) => ~(Reduces(a2) \/ a2 = NA - 1)
C6 ==
    /\ cpc = "c6" /\ mutex = 0 /\ mutex' = Free
    /\ IF BlockHasChoice(block) THEN success' = TRUE /\ chosen' = ChoiceIn(block) ELSE UNCHANGED <<success, chosen>>
    /\ block' = block + 1
    /\ cpc' = IF BlockHasChoice(block) \/ block + 1 = NBlocks THEN "t1" ELSE "c1"
    /\ UNCHANGED <<state, alpha, result, computing, cvwait, spawned, finished, k, wpc>>
T1 == CLock("t1", "t2") /\ UNCHANGED CU
T2 ==
    /\ cpc = "t2" /\ mutex = 0
    /\ state' = [w \in Workers |-> "TERM"] /\ cvwait' = {} /\ cpc' = "t3"
    /\ UNCHANGED <<mutex, alpha, result, computing, spawned, finished, k, block, success, chosen, wpc>>
T3 ==
    /\ cpc = "t3" /\ mutex = 0 /\ mutex' = Free /\ cpc' = "join" /\ k' = 1
    /\ UNCHANGED <<state, alpha, result, computing, cvwait, spawned, finished, block, success, chosen, wpc>>
Join ==
    /\ cpc = "join" /\ finished[k]
    /\ k' = k + 1 /\ cpc' = IF k = NW THEN "Done" ELSE "join"
    /\ UNCHANGED <<mutex, state, alpha, result, computing, cvwait, spawned, finished, block, success, chosen, wpc>>

Coord == (Spawn \/ C1 \/ C2 \/ C3 \/ C4 \/ C5w \/ C5r \/ C6 \/ T1 \/ T2 \/ T3 \/ Join) /\ lastTh' = 0

(* -------------------------------- workers -------------------------------- *)
WU == <<spawned, cpc, k, block, success, chosen>>
AfterLock(w) == IF state[w] = "WAIT" THEN "w2w" ELSE IF state[w] = "TERM" THEN "w3t" ELSE "w4"
Goto(w, l) == wpc' = [wpc EXCEPT ![w] = l]

W0(w) == wpc[w] = "w0" /\ spawned[w] /\ Goto(w, "w1")
         /\ UNCHANGED <<mutex, state, alpha, result, computing, cvwait, finished>>
W1(w) == wpc[w] = "w1" /\ mutex = Free /\ mutex' = w /\ Goto(w, AfterLock(w))
         /\ UNCHANGED <<state, alpha, result, computing, cvwait, finished>>
W2w(w) == wpc[w] = "w2w" /\ mutex = w /\ mutex' = Free /\ cvwait' = cvwait \cup {w} /\ Goto(w, "w2r")
          /\ UNCHANGED <<state, alpha, result, computing, finished>>
W2r(w) == wpc[w] = "w2r" /\ mutex = Free /\ (w \notin cvwait \/ Spurious)
          /\ mutex' = w /\ cvwait' = cvwait \ {w} /\ Goto(w, AfterLock(w))
          /\ UNCHANGED <<state, alpha, result, computing, finished>>
W3t(w) == wpc[w] = "w3t" /\ mutex = w /\ mutex' = Free /\ Goto(w, "w3x")
          /\ UNCHANGED <<state, alpha, result, computing, cvwait, finished>>
W3x(w) == wpc[w] = "w3x" /\ finished' = [finished EXCEPT ![w] = TRUE] /\ Goto(w, "Done")
          /\ UNCHANGED <<mutex, state, alpha, result, computing, cvwait>>
W4(w) == wpc[w] = "w4" /\ mutex = w /\ mutex' = Free /\ Goto(w, "w5")
         /\ UNCHANGED <<state, alpha, result, computing, cvwait, finished>>
W5(w) == wpc[w] = "w5" /\ computing' = [computing EXCEPT ![w] = TRUE] /\ Goto(w, "w5e")
         /\ UNCHANGED <<mutex, state, alpha, result, cvwait, finished>>
W5e(w) == wpc[w] = "w5e" /\ computing' = [computing EXCEPT ![w] = FALSE]
          /\ result' = [result EXCEPT ![w] = alpha[w]] /\ Goto(w, "w6")
          /\ UNCHANGED <<mutex, state, alpha, cvwait, finished>>
W6(w) == wpc[w] = "w6" /\ mutex = Free /\ mutex' = w /\ Goto(w, "w7")
         /\ UNCHANGED <<state, alpha, result, computing, cvwait, finished>>
W7(w) == wpc[w] = "w7" /\ mutex = w /\ state' = [state EXCEPT ![w] = "WAIT"] /\ cvwait' = {} /\ Goto(w, "w8")
         /\ UNCHANGED <<mutex, alpha, result, computing, finished>>
W8(w) == wpc[w] = "w8" /\ mutex = w /\ mutex' = Free /\ Goto(w, "w1")
         /\ UNCHANGED <<state, alpha, result, computing, cvwait, finished>>

Worker(w) == (W0(w) \/ W1(w) \/ W2w(w) \/ W2r(w) \/ W3t(w) \/ W3x(w) \/ W4(w) \/ W5(w) \/ W5e(w) \/ W6(w) \/ W7(w) \/ W8(w))
             /\ UNCHANGED WU /\ lastTh' = w

AllDone == cpc = "Done" /\ \A w \in Workers : wpc[w] = "Done"
Terminated == AllDone /\ UNCHANGED vars

Next == Coord \/ (\E w \in Workers : Worker(w)) \/ Terminated
Spec == Init /\ [][Next]_vars /\ WF_vars(Coord) /\ \A w \in Workers : WF_vars(Worker(w))

-----------------------------------------------------------------------------
(* the shim event that each program counter value performs *)
OpOf(l) == CASE l \in {"c1", "c4", "t1", "w1", "w6"} -> "lock"
             [] l \in {"c3", "c6", "t3", "w3t", "w4", "w8"} -> "unlock"
             [] l \in {"c2", "t2", "w7"} -> "bcast"
             [] l \in {"c5w", "w2w"} -> "wait"
             [] l \in {"c5r", "w2r"} -> "wake"
             [] l = "spawn" -> "create"
             [] l = "join" -> "join"
             [] l = "w0" -> "start"
             [] l = "w3x" -> "exit"
             [] l = "w5" -> "compute"
             [] l = "w5e" -> "cend"
             [] OTHER -> "none"

(* ------------------------------ properties ------------------------------- *)
TypeOK == /\ mutex \in {Free, 0} \cup Workers
          /\ state \in [Workers -> {"WAIT", "RUN", "TERM"}]

(* when the coordinator leaves the wait loop (c6 is where it goes on to read the residuals) every worker *)
(* of the block has finished and its residual belongs to the alpha it was given                          *)
NoStaleRead == cpc = "c6" => \A w \in Workers : InBlock(block, w) => (~computing[w] /\ result[w] = alpha[w] /\ state[w] = "WAIT")

(* a worker computes only between RUN and its own WAIT; its inputs (alpha) are not rewritten meanwhile *)
NoRace == \A w \in Workers : computing[w] => (state[w] = "RUN" /\ alpha[w] = AlphaOf(block, w))

(* the outcome is the first reducing alpha (or the last alpha) whatever the schedule and the worker count *)
Expected == IF FirstRed <= NA - 1 THEN FirstRed ELSE NA - 1
Deterministic == AllDone => (success /\ chosen = Expected)

Termination == <>AllDone
MutexHeldByLive == mutex \in Workers => wpc[mutex] # "Done"
=============================================================================
