SPECIFICATION Spec
CONSTANTS MaxDim = 4 EvalDims = 3
INVARIANTS Check
CHECK_DEADLOCK FALSE
