----------------------------- MODULE Trace_CApi -----------------------------
EXTENDS CApi, IOUtils
TraceLog == ndJsonDeserialize(IOEnv.TRACE)
VARIABLES l, bad
Ev == TraceLog[l]
Devs(S) == LET RECURSIVE F(_) F(T) == IF T = {} THEN <<>> ELSE LET x == CHOOSE y \in T : TRUE IN <<[line |-> l, kind |-> x, f |-> Ev.f]>> \o F(T \ {x}) IN F(S)
TInit == l = 1 /\ bad = <<>> /\ Init
TNext == l <= Len(TraceLog) /\ l' = l + 1 /\ bad' = bad \o (IF Ev.f \in {"crash", "leak"} THEN <<>> ELSE Devs(Judge(Ev))) /\ UNCHANGED vars
TSpec == TInit /\ [][TNext]_<<l, bad, vars>>
Report == l = Len(TraceLog) + 1 => PrintT(ToJson([deviations |-> bad, lines |-> Len(TraceLog)]))
TraceAccepted == TLCGet("stats").diameter - 1 = Len(TraceLog)
=============================================================================
