SPECIFICATION Spec
CONSTANTS Positions = {1, 2, 3, 4, 5, 6, 7} NResults = 1 Burnin = 0
  Uniforms <- MCUniforms Usable <- MCUsable Dens <- MCDens Prop <- MCProp Odds <- BadOdds
INVARIANTS DetailedBalance
CHECK_DEADLOCK FALSE
