SPECIFICATION Spec
CONSTANTS MaxDim = 3 MaxMut = 2 Pairs = TRUE
INVARIANTS Emit
CHECK_DEADLOCK FALSE
