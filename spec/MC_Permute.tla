----------------------------- MODULE MC_Permute -----------------------------
(***************************************************************************)
(* Model checking of Table!Permute against the property C15: for every     *)
(* shape and every permutation, the permuted table evaluated at the        *)
(* permuted point equals the original (exact rationals), the inverse       *)
(* permutation restores the table, the result is well-formed; everything   *)
(* that is not a permutation is refused with the table unchanged.          *)
(***************************************************************************)
EXTENDS Table, TLC
CONSTANTS MaxDim, EvalDims

Shape(n) ==
    LET ord == [d \in 1 .. n |-> d % 3]
        kn == [d \in 1 .. n |-> [j \in 1 .. 2 * ord[d] + 2 + ((d + 1) % 2) |-> (j - 1) + ((j - 1) * (j + d)) \div 4]]
        nax == [d \in 1 .. n |-> Len(kn[d]) - ord[d] - 1]
    IN  [ndim |-> n, order |-> ord, knots |-> kn, naxes |-> nax, strides |-> StridesOf(nax),
         extents |-> [d \in 1 .. n |-> <<d, 10 + d>>], periods |-> [d \in 1 .. n |-> 100 + d],
         coef |-> [f \in 1 .. ProdSeq(nax) |-> ((f * 5) % 7) - 3]]

Perms(n) == {p \in [1 .. n -> 0 .. n - 1] : IsPermutation(p, n)}
BadPerms(n) == {p \in [1 .. n -> 0 .. n] : ~IsPermutation(p, n)} \cup {[i \in 1 .. n + 1 |-> i - 1]}
               \cup (IF n > 1 THEN {[i \in 1 .. n - 1 |-> i - 1]} ELSE {<<>>})

VARIABLES n, p
Init == n \in 1 .. MaxDim /\ p = <<>>
Next == p = <<>> /\ p' \in Perms(n) \cup BadPerms(n) /\ UNCHANGED n
Spec == Init /\ [][Next]_<<n, p>>

(* points: every half-integer of the fully supported box would be too many; take the corner, a mixed and a margin point *)
Points(T) == {[d \in 1 .. T.ndim |-> <<2 * T.order[d] + 1, 2>>],
              [d \in 1 .. T.ndim |-> <<2 * T.order[d] + d, 2>>],
              [d \in 1 .. T.ndim |-> IF d = 1 THEN <<1, 2>> ELSE R(T.order[d] + 1)]}

Check ==
    p # <<>> =>
        LET T == Shape(n)
            r == PermuteOp(T, p)
        IN  IF IsPermutation(p, n)
            THEN /\ Assert(r.ok, "permutation refused")
                 /\ Assert(WellFormed(r.table), <<"not well-formed", n, p>>)
                 /\ Assert(Permute(r.table, InversePerm(p)) = T, <<"inverse does not restore", n, p>>)
                 /\ Assert(ScatterIsBijection(T, p), <<"relocation loop writes a position twice", n, p>>)
                 /\ Assert(PermuteScatterCoef(T, p) = r.table.coef, <<"relocation loop of the code differs from the definition", n, p>>)
                 /\ (n <= EvalDims =>
                        \A x \in Points(T) :
                            Assert(EvalTable(r.table, [i \in 1 .. n |-> x[p[i] + 1]]) = EvalTable(T, x), <<"function changed", n, p, x>>))
            ELSE Assert(~r.ok /\ r.table = T, "non-permutation accepted")
=============================================================================
