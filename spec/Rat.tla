-------------------------------- MODULE Rat --------------------------------
(***************************************************************************)
(* Exact rational arithmetic on TLC integers.  A rational is <<num, den>>  *)
(* with den > 0 and gcd(num, den) = 1.  TLC integers are 32 bit and TLC    *)
(* raises an error on overflow, so a wrong value is never produced         *)
(* silently.  <<0,0>> is JUNK: the value of anything computed from memory  *)
(* the library does not initialise (knot padding) or from a division by    *)
(* zero (NaN/inf in the implementation); it is absorbing.                  *)
(***************************************************************************)
EXTENDS Integers, Sequences

Abs(a) == IF a < 0 THEN -a ELSE a
Sgn(a) == IF a < 0 THEN -1 ELSE IF a = 0 THEN 0 ELSE 1

RECURSIVE Gcd(_, _)
Gcd(a, b) == IF b = 0 THEN a ELSE Gcd(b, a % b)

Junk == <<0, 0>>
IsJunk(r) == r[2] = 0

\* normalise n/d, d # 0
Norm(n, d) ==
    IF n = 0 THEN <<0, 1>>
    ELSE LET g == Gcd(Abs(n), Abs(d))
             s == Sgn(n) * Sgn(d)
         IN  <<s * (Abs(n) \div g), Abs(d) \div g>>

R(n) == <<n, 1>>
Zero == <<0, 1>>
One == <<1, 1>>

RNeg(a) == IF IsJunk(a) THEN Junk ELSE <<-a[1], a[2]>>

RAdd(a, b) ==
    IF IsJunk(a) \/ IsJunk(b) THEN Junk
    ELSE LET g == Gcd(a[2], b[2])
             bd == b[2] \div g
             ad == a[2] \div g
         IN  Norm(a[1] * bd + b[1] * ad, ad * b[2])

RSub(a, b) == RAdd(a, RNeg(b))

RMul(a, b) ==
    IF IsJunk(a) \/ IsJunk(b) THEN Junk
    ELSE IF a[1] = 0 \/ b[1] = 0 THEN Zero
    ELSE LET g1 == Gcd(Abs(a[1]), b[2])
             g2 == Gcd(Abs(b[1]), a[2])
         IN  <<(a[1] \div g1) * (b[1] \div g2), (a[2] \div g2) * (b[2] \div g1)>>

\* a / b; division by zero gives Junk (the implementation produces NaN or inf)
RDiv(a, b) ==
    IF IsJunk(a) \/ IsJunk(b) THEN Junk
    ELSE IF b[1] = 0 THEN Junk
    ELSE RMul(a, <<Sgn(b[1]) * b[2], Abs(b[1])>>)

\* the convention 0/0 = 0 of the Cox-de Boor definition: a/b, or 0 when b = 0
RDiv0(a, b) == IF b[1] = 0 THEN Zero ELSE RDiv(a, b)

RSign(a) == Sgn(a[1])
RLt(a, b) == RSign(RSub(a, b)) < 0
RLe(a, b) == RSign(RSub(a, b)) <= 0
RAbs(a) == <<Abs(a[1]), a[2]>>
RInt(a) == a[2] = 1

RECURSIVE RSumSeq(_)
RSumSeq(s) == IF s = <<>> THEN Zero ELSE RAdd(Head(s), RSumSeq(Tail(s)))
=============================================================================
