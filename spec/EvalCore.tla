------------------------------ MODULE EvalCore ------------------------------
(***************************************************************************)
(* ndsplineeval_core (bspline_eval.h): the walk over the block of          *)
(* (order_d + 1) coefficients per dimension around the centers, as the     *)
(* code performs it - a running table position, a per-dimension odometer   *)
(* ("decomposedposition") with carries that adjust the position by stride  *)
(* differences, and a tree of partial basis products rebuilt from the      *)
(* carried dimension downwards.  One action per loop iteration:            *)
(*   Chunk    the inner loop over the last dimension                       *)
(*   Advance  odometer increment, carries, rebuild of the product tree     *)
(* The fixed-order and known-order specialisations perform the same walk   *)
(* with compile-time orders.                                               *)
(* Checked by MC_EvalCore for every small shape and every admissible       *)
(* center vector: every coefficient index read lies inside the array, and  *)
(* the result is the block sum  sum_k prod_d lb[d][k_d] * coef[c-n+k].     *)
(***************************************************************************)
EXTENDS Integers, Sequences, FiniteSets

RECURSIVE ProdI(_)
ProdI(s) == IF s = <<>> THEN 1 ELSE Head(s) * ProdI(Tail(s))
Strides(naxes) == [i \in 1 .. Len(naxes) |-> ProdI(SubSeq(naxes, i + 1, Len(naxes)))]

CONSTANT CarryFromNext      \* FALSE: the code (rewind dimension i by its own count); TRUE: a seeded variant that uses the neighbour's order

VARIABLES nd, order, naxes, centers, lb, coef,      \* the problem: lb[d][k] integer "basis values", coef integer coefficients
          pos, dp, tree, chunk, result, reads, pc
pvars == <<nd, order, naxes, centers, lb, coef>>
svars == <<pos, dp, tree, chunk, result, reads, pc>>

NChunks == ProdI([d \in 1 .. nd - 1 |-> order[d] + 1])
Str == Strides(naxes)

Begin ==
    /\ pc = "begin"
    /\ pos' = LET RECURSIVE S(_) S(d) == IF d > nd THEN 0 ELSE (centers[d] - order[d]) * Str[d] + S(d + 1) IN S(1)
    /\ dp' = [d \in 1 .. nd |-> 0]
    /\ tree' = [j \in 1 .. nd + 1 |-> ProdI([d \in 1 .. j - 1 |-> lb[d][1]])]         \* tree[j+1] = tree[j] * lb[j][0]
    /\ chunk' = 0 /\ result' = 0 /\ reads' = {} /\ pc' = "chunk"
    /\ UNCHANGED pvars

Chunk ==
    /\ pc = "chunk"
    /\ LET idx == {pos + i : i \in 0 .. order[nd]}
       IN  /\ reads' = reads \cup idx
           /\ result' = result + tree[nd] * (LET RECURSIVE S(_) S(i) == IF i > order[nd] THEN 0
                                                 ELSE lb[nd][i + 1] * (IF pos + i \in 0 .. Len(coef) - 1 THEN coef[pos + i + 1] ELSE 0) + S(i + 1) IN S(0))
    /\ chunk' = chunk + 1
    /\ pc' = IF chunk + 1 = NChunks THEN "done" ELSE "advance"
    /\ UNCHANGED <<pos, dp, tree>> /\ UNCHANGED pvars

(* carries from dimension nd-1 upwards (1-based); returns the state after all carries *)
RECURSIVE Carry(_, _, _)
Carry(i, p, d) ==
    IF d[i] > order[i]
    THEN LET rew == IF CarryFromNext /\ i + 1 <= nd - 1 THEN order[i + 1] + 1 ELSE d[i]
         IN  Carry(i - 1, p + (Str[i - 1] - rew * Str[i]), [d EXCEPT ![i - 1] = d[i - 1] + 1, ![i] = 0])
    ELSE [i |-> i, pos |-> p, dp |-> d]
Advance ==
    /\ pc = "advance"
    /\ LET r == Carry(nd - 1, pos + Str[nd - 1], [dp EXCEPT ![nd - 1] = dp[nd - 1] + 1])
           RECURSIVE Rebuild(_, _)
           Rebuild(j, t) == IF j > nd - 1 THEN t ELSE Rebuild(j + 1, [t EXCEPT ![j + 1] = t[j] * lb[j][r.dp[j] + 1]])
       IN  /\ pos' = r.pos /\ dp' = r.dp /\ tree' = Rebuild(r.i, tree)
    /\ pc' = "chunk"
    /\ UNCHANGED <<chunk, result, reads>> /\ UNCHANGED pvars

Step == Begin \/ Chunk \/ Advance

(* ---------------------------------------------------------------- properties *)
BlockSum ==
    LET Ks == [1 .. nd -> 0 .. 5]
        ok(k) == \A d \in 1 .. nd : k[d] <= order[d]
        flat(k) == LET RECURSIVE S(_) S(d) == IF d > nd THEN 0 ELSE (centers[d] - order[d] + k[d]) * Str[d] + S(d + 1) IN S(1)
        term(k) == ProdI([d \in 1 .. nd |-> lb[d][k[d] + 1]]) * coef[flat(k) + 1]
        RECURSIVE Sum(_)
        Sum(S) == IF S = {} THEN 0 ELSE LET k == CHOOSE z \in S : TRUE IN term(k) + Sum(S \ {k})
    IN  Sum({k \in Ks : ok(k)})
ReadsOwned == reads \subseteq 0 .. Len(coef) - 1
OdometerInRange == pc \in {"chunk", "advance", "done"} => \A d \in 1 .. nd : dp[d] >= 0 /\ (d < nd => dp[d] <= order[d])
Correct == pc = "done" => result = BlockSum /\ Cardinality(reads) = ProdI([d \in 1 .. nd |-> order[d] + 1])
=============================================================================
