--------------------------- MODULE Trace_FitArgs ---------------------------
EXTENDS FitArgs, IOUtils
TraceLog == ndJsonDeserialize(IOEnv.TRACE)
VARIABLES l, bad
Ev == TraceLog[l]
Devs(S) == LET RECURSIVE G(_) G(X) == IF X = {} THEN <<>> ELSE LET x == CHOOSE y \in X : TRUE IN <<[line |-> l, kind |-> x]>> \o G(X \ {x}) IN G(S)
TInit == l = 1 /\ bad = <<>> /\ nd = 1 /\ combo = Good
TNext == l <= Len(TraceLog) /\ l' = l + 1 /\ bad' = bad \o Devs(Judge(Ev)) /\ UNCHANGED <<combo, nd>>
TSpec == TInit /\ [][TNext]_<<l, bad, combo, nd>>
Report == l = Len(TraceLog) + 1 => PrintT(ToJson([deviations |-> bad, lines |-> Len(TraceLog)]))
TraceAccepted == TLCGet("stats").diameter - 1 = Len(TraceLog)
=============================================================================
