SPECIFICATION TSpec
CONSTANTS
  Keys = {1,2,3,4,5,6,7,8,9,10,11,12,13,14,15,16,17,18}
  Vals = {1,2,3,4,5,6,7,8,9,10,11,12,13,14,15,16}
  MaxLen = 100
INVARIANTS Report
POSTCONDITION TraceAccepted
CHECK_DEADLOCK FALSE
