--------------------------- MODULE Trace_AuxStore ---------------------------
(***************************************************************************)
(* Deviation-collecting trace validation for the auxiliary key store.      *)
(* Each line of the log is one call on the real table with its observed    *)
(* outcome and the projected store afterwards.  For every line the         *)
(* specification computes what AuxStore allows from its current state;     *)
(* every disagreement is appended to `bad` with the line number and a      *)
(* kind, and the specification then adopts the observed store so that the  *)
(* rest of the history is still checked.  `bad` is printed at the end.     *)
(***************************************************************************)
EXTENDS AuxStore, Json, IOUtils

TraceLog == ndJsonDeserialize(IOEnv.TRACE)
VARIABLES l, bad
Ev == TraceLog[l]
AsStore(s) == [i \in 1 .. Len(s) |-> <<s[i][1], s[i][2]>>]
Dev(kind) == [line |-> l, kind |-> kind, ev |-> Ev]
Devs(S) == LET RECURSIVE F(_) F(T) == IF T = {} THEN <<>> ELSE LET x == CHOOSE y \in T : TRUE IN <<Dev(x)>> \o F(T \ {x}) IN F(S)
HasDup(s) == Cardinality({s[i][1] : i \in 1 .. Len(s)}) # Len(s)

Deviations ==
    LET obs == IF "store" \in DOMAIN Ev THEN AsStore(Ev.store) ELSE store IN
    (IF HasDup(obs) THEN {"duplicate-key"} ELSE {}) \cup
    CASE Ev.op = "write" ->
            (IF Ev.acc /\ MustReject(Ev.k, Ev.v) THEN {"accepted-unstorable"} ELSE {}) \cup
            (IF obs # (IF Ev.acc THEN Put(store, Ev.k, Ev.v) ELSE store) THEN {"store-after-write"} ELSE {})
      [] Ev.op = "remove" ->
            (IF "unsupported" \in DOMAIN Ev THEN {"remove-unavailable"} ELSE
             (IF Ev.ret # (Ev.k \in KeysOf(store)) THEN {"remove-result"} ELSE {}) \cup
             (IF obs # Del(store, Ev.k) THEN {"store-after-remove"} ELSE {}))
      [] Ev.op = "get" -> IF Ev.res # Lookup(store, Ev.k) THEN {"lookup"} ELSE {}
      [] Ev.op = "roundtrip" -> IF obs # store THEN {"roundtrip"} ELSE {}
      [] Ev.op = "readint" ->
            LET v == Lookup(store, Ev.k) IN
            IF v = 0 THEN (IF Ev.ok THEN {"typed-read-of-absent-key"} ELSE {})
            ELSE IF ValInfo(v)[1] = "int" THEN (IF ~Ev.ok \/ Ev.val # ValInfo(v)[4] THEN {"typed-read-int"} ELSE {})
            ELSE {}
      [] Ev.op = "readstr" ->
            LET v == Lookup(store, Ev.k) IN
            IF v = 0 THEN (IF Ev.ok THEN {"typed-read-of-absent-key"} ELSE {})
            ELSE (IF ~Ev.ok \/ Ev.res # v THEN {"typed-read-string"} ELSE {})
      [] OTHER -> {}

TInit == l = 1 /\ bad = <<>> /\ Init
TNext ==
    /\ l <= Len(TraceLog)
    /\ l' = l + 1
    /\ bad' = bad \o Devs(Deviations)
    /\ store' = IF Ev.op = "reset" THEN <<>> ELSE IF "store" \in DOMAIN Ev THEN AsStore(Ev.store) ELSE store
    /\ last' = [op |-> Ev.op]
TSpec == TInit /\ [][TNext]_<<vars, l, bad>>
Report == l = Len(TraceLog) + 1 => PrintT(ToJson([deviations |-> bad, lines |-> Len(TraceLog)]))
TraceAccepted == TLCGet("stats").diameter - 1 = Len(TraceLog)
=============================================================================
