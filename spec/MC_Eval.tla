------------------------------ MODULE MC_Eval ------------------------------
(***************************************************************************)
(* Model checking of the 1-D evaluation algorithms against the             *)
(* mathematical definition (properties C01, C02, C04, C05 at the level of  *)
(* the algorithm), and generator of the replay cases: every reachable      *)
(* leaf state is one case {order, knots, x, center, exact basis row, exact *)
(* derivative rows}, printed as JSON for the conformance driver.           *)
(*                                                                         *)
(* The state space is a three-level tree so that TLC's workers share it:   *)
(*   "n": choose order and knot count; "t": choose a knot vector from the  *)
(*   structural families; "x": choose a point of (t_0, t_last] on the      *)
(*   1/Denom lattice.                                                      *)
(***************************************************************************)
EXTENDS EvalAlgo, TLC, Json

CONSTANTS Orders,      \* set of spline orders
          ExtraLens,   \* knot counts are 2n+2+e, e \in ExtraLens
          Denom,       \* points are k/Denom
          TwoMods,     \* include knot vectors with two modified gaps
          MaxDeriv,    \* derivative rows up to this order are emitted (>= 1)
          EmitJson     \* print cases

VARIABLES ph, n, t, x
vars == <<ph, n, t, x>>

Uniform(L) == [k \in 1 .. L - 1 |-> 1]

GapFamilies(L, nn) ==
    LET U == Uniform(L)
        one == {[U EXCEPT ![p] = v] : p \in 1 .. L - 1, v \in {0, 2, 3}}
        two == IF TwoMods
               THEN {[U EXCEPT ![p] = v, ![q] = w] : p \in 1 .. L - 1, q \in 1 .. L - 1, v \in {0, 3}, w \in {0, 3}}
               ELSE {[U EXCEPT ![p] = 0, ![p + 1] = 0] : p \in 1 .. L - 2}
        alt == {[k \in 1 .. L - 1 |-> IF k % 2 = 0 THEN 3 ELSE 1], [k \in 1 .. L - 1 |-> IF k % 2 = 0 THEN 1 ELSE 3]}
        clampL == [k \in 1 .. L - 1 |-> IF k <= nn THEN 0 ELSE 1]
        clampR == [k \in 1 .. L - 1 |-> IF k >= L - nn THEN 0 ELSE 1]
        clampB == [k \in 1 .. L - 1 |-> IF k <= nn \/ k >= L - nn THEN 0 ELSE 2]
    IN  {U} \cup one \cup two \cup alt \cup {clampL, clampR, clampB}

Init == ph = "n" /\ n \in Orders /\ t \in {<<e>> : e \in ExtraLens} /\ x = Zero

PickKnots ==
    /\ ph = "n"
    /\ \E g \in GapFamilies(2 * n + 2 + t[1], n) :
          /\ t' = KnotsFromGaps(g, 0)
          /\ t'[1] < t'[Len(t')]          \* a non-empty knot range
    /\ ph' = "t" /\ UNCHANGED <<n, x>>

PickX ==
    /\ ph = "t"
    /\ \E k \in Denom * t[1] + 1 .. Denom * t[Len(t)] : x' = Norm(k, Denom)
    /\ ph' = "x" /\ UNCHANGED <<n, t>>

Next == PickKnots \/ PickX
Spec == Init /\ [][Next]_vars

-----------------------------------------------------------------------------
(* the known degenerate case: x sits on the upper end of full support and the  *)
(* last fully supported interval has zero length - the code divides 0 by 0.    *)
Degenerate == x = K(t, NAxes(t, n)) /\ \A c \in n .. NAxes(t, n) - 1 : K(t, c) = K(t, c + 1)

HasJunk(s) == \E k \in DOMAIN s : IsJunk(s[k])
RatJ(r) == <<r[1], r[2]>>

(***************************************************************************)
(* One invariant, so that TLC computes each row once per state:            *)
(*  AlgoMatchesDef   the three transcribed routines return the exact rows  *)
(*                   of the definition (no Junk: nothing depends on knot   *)
(*                   padding, no division by zero);                        *)
(*  CenterInRange    order <= c <= nknots-order-2;                         *)
(*  RowComplete      no basis function outside c-n..c is non-zero at x;    *)
(*  PartitionOfUnity all basis functions sum to one on the fully supported *)
(*                   range;                                                *)
(*  HighDerivZero    the (n+1)-th derivative vanishes;                     *)
(*  KnotsOwned       the knot indices read stay inside the padded          *)
(*                   allocation -n .. nk+n-1.                              *)
(***************************************************************************)
Check ==
    ph = "x" =>
        LET c == CenterDef(t, n, x)
            row == Row(t, n, c, x)
            d1 == DRow(t, n, c, x, 1)
            aSimple == BsplvbSimple(t, x, c, n + 1)
            aDeriv == DerivNonzero(t, x, c, n)
            aNonzero == Nonzero(t, x, c, n)
            nk == Len(t)
            l1 == MarginShift(t, x, c, n, nk - n - 2)
            degen == Degenerate
            strict == Strict(t)
            AlgoMatchesDef ==
                IF degen THEN n > 0 => HasJunk(aSimple)     \* the specification follows the code: NaN here
                ELSE aSimple = row /\ aDeriv = d1 /\ aNonzero = <<row, d1>>
            CenterInRange == c >= n /\ c <= NAxes(t, n) - 1
            RowComplete == ~degen => LocalRowComplete(t, n, c, x)
            PartitionOfUnity == FullySupported(t, n, x) => RSumSeq(FullRow(t, n, x)) = One
            HighDerivZero == \A k \in 1 .. n + 1 : DRow(t, n, c, x, n + 1)[k] = Zero
            KnotsOwned == /\ KnotsTouchedSimple(l1, n + 1) \subseteq (-n) .. (nk + n - 1)
                          /\ (n > 0 => KnotsTouchedDeriv(l1, n) \subseteq (-n) .. (nk + n - 1))
        IN  /\ Assert(AlgoMatchesDef, <<"AlgoMatchesDef", n, t, x>>)
            /\ Assert(CenterInRange, <<"CenterInRange", n, t, x>>)
            /\ Assert(RowComplete, <<"RowComplete", n, t, x>>)
            /\ Assert(PartitionOfUnity, <<"PartitionOfUnity", n, t, x>>)
            /\ Assert(HighDerivZero, <<"HighDerivZero", n, t, x>>)
            /\ Assert(KnotsOwned, <<"KnotsOwned", n, t, x>>)
            /\ EmitJson =>
                  PrintT(ToJson([n |-> n, t |-> t, x |-> RatJ(x), c |-> c, side |-> Side(t, n, x),
                       degen |-> degen, strict |-> strict, full |-> FullySupported(t, n, x),
                       row |-> [k \in 1 .. n + 1 |-> RatJ(row[k])],
                       d |-> [m \in 1 .. MaxDeriv |->
                                 IF m = 1 THEN [k \in 1 .. n + 1 |-> RatJ(d1[k])]
                                 ELSE IF strict THEN [k \in 1 .. n + 1 |-> RatJ(DRow(t, n, c, x, m)[k])]
                                 ELSE <<>>]]))
=============================================================================
