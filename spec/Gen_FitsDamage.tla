--------------------------- MODULE Gen_FitsDamage ---------------------------
(***************************************************************************)
(* Enumerates the damaged inputs of property C07: base spline files of     *)
(* 1..MaxDim dimensions, every single mutation and every ordered pair of   *)
(* mutations from the catalogue.  Each state with at least one mutation is  *)
(* emitted as JSON; the driver materialises the bytes with the independent *)
(* codec, lets the real readers loose on them and logs the outcome for     *)
(* Trace_Fits ("damaged" events).                                          *)
(* HDU indices: 0 primary, 1..n KNOTS0..KNOTSn-1, n+1 EXTENTS.             *)
(***************************************************************************)
EXTENDS Integers, Sequences, TLC, Json
CONSTANTS MaxDim, MaxMut, Pairs

Mutations(n) ==
    {[m |-> "setcard", key |-> "ORDER" \o ToString(d), val |-> v] : d \in 0 .. n - 1, v \in {"0", "1", "9", "-1", "1000000", "2.5", "'x'"}} \cup
    {[m |-> "delcard", key |-> "ORDER" \o ToString(d)] : d \in 0 .. n - 1} \cup
    \* cards that carry no key/value pair (commentary, blank keyword) or a key without a (complete) value, among the auxiliary keys
    {[m |-> "rawcard", cls |-> c] : c \in {"history", "comment", "blank-keyword", "blank-value", "no-equals", "unterminated-string"}} \cup
    {[m |-> "addcard", key |-> "ORDER", val |-> v] : v \in {"1", "7"}} \cup
    {[m |-> "setaxis", hdu |-> 0, axis |-> a, val |-> v] : a \in 1 .. n, v \in {0, 1, 1000}} \cup
    {[m |-> "setaxis", hdu |-> h, axis |-> 1, val |-> v] : h \in 1 .. n + 1, v \in {0, 1, 2, 1000}} \cup
    {[m |-> "setnaxis", hdu |-> h, val |-> v] : h \in 0 .. n + 1, v \in {0, 2, n + 1}} \cup
    {[m |-> "setbitpix", hdu |-> h, val |-> v] : h \in 0 .. n + 1, v \in {8, 16, 32, -32, -64}} \cup
    {[m |-> "rename", hdu |-> h, name |-> nm] : h \in 1 .. n + 1, nm \in {"KNOTS0", "KNOTS7", "EXTENTS", "OTHER"}} \cup
    {[m |-> "drop", hdu |-> h] : h \in 0 .. n + 1} \cup
    {[m |-> "swap", hdu |-> h, hdu2 |-> h2] : h \in 0 .. n + 1, h2 \in 0 .. n + 1} \cup
    {[m |-> "dup", hdu |-> h] : h \in 0 .. n + 1} \cup
    {[m |-> "resize", hdu |-> h, delta |-> k] : h \in 0 .. n + 1, k \in {-3, -1, 1, 3, 24}} \cup
    {[m |-> "setknot", dim |-> d, idx |-> j, cls |-> c] : d \in 0 .. n - 1, j \in {0, 2, 100}, c \in {"nan", "inf", "-inf", "descending", "equal"}} \cup
    \* still finite and non-decreasing, hence accepted: the fully supported range collapsed to one point / every knot equal
    {[m |-> "setknot", dim |-> d, idx |-> 0, cls |-> c] : d \in 0 .. n - 1, c \in {"flat-support", "all-equal"}} \cup
    {[m |-> "truncate", blocks |-> b, partial |-> p] : b \in 0 .. 4, p \in {0, 1, 1440}} \cup
    {[m |-> "flip", region |-> r, which |-> w] : r \in {"header", "data"}, w \in 0 .. 5} \cup
    {[m |-> "foreign", kind |-> k] : k \in {"zero-dim-primary", "no-spline-keys", "table-extension", "empty-file", "garbage"}}

VARIABLES n, muts
Init == n \in 1 .. MaxDim /\ muts = <<>>
Next == Len(muts) < (IF Pairs THEN 2 ELSE 1) /\ \E m \in Mutations(n) : muts' = Append(muts, m) /\ UNCHANGED n
Spec == Init /\ [][Next]_<<n, muts>>
Emit == muts # <<>> => PrintT(ToJson([base |-> n, muts |-> muts]))
=============================================================================
