------------------------------ MODULE MC_Conv ------------------------------
(* generator of exact convolution values (C14) and self-checks of the reference *)
EXTENDS Convolve, TLC, Json
CONSTANTS MaxOrder, MaxKernel, Denom, MaxSum
Src(id) == CASE id = 0 -> [n |-> 0, t |-> <<0, 1, 3, 4>>, c |-> <<2, -1, 3>>]
             [] id = 1 -> [n |-> 1, t |-> <<0, 1, 3, 4, 6>>, c |-> <<1, -2, 3>>]
             [] id = 2 -> [n |-> 2, t |-> <<0, 1, 2, 4, 5, 7, 8>>, c |-> <<1, 3, -2, 2>>]
             [] id = 3 -> [n |-> 3, t |-> <<0, 1, 2, 3, 5, 6, 8, 9>>, c |-> <<2, -1, 1, 3>>]
             [] id = 4 -> [n |-> 4, t |-> <<0, 1, 2, 3, 4, 6, 7, 8, 9, 10>>, c |-> <<1, 2, -1, 0, 2>>]
             [] id = 5 -> [n |-> 5, t |-> <<0, 1, 2, 3, 4, 5, 6, 7, 8, 9, 10, 11>>, c |-> <<1, -1, 2, 0, 1, 1>>]
             [] id = 6 -> [n |-> 1, t |-> <<0, 2, 3, 4>>, c |-> <<1, 1>>]            \* all-ones coefficients: stays 1 in the interior
             [] id = 7 -> [n |-> 2, t |-> <<0, 1, 2, 3, 4, 5, 6>>, c |-> <<1, 1, 1, 1>>]
             [] OTHER -> [n |-> 3, t |-> <<0, 1, 2, 3, 4, 5, 6, 7>>, c |-> <<1, 1, 1, 1>>]
Kern(id) == CASE id = 1 -> <<R(0), R(1)>>                                       \* box
              [] id = 2 -> <<Norm(-1, 2), Norm(1, 2)>>                          \* symmetric box
              [] id = 3 -> <<Norm(-1, 2), R(0), R(1)>>                    \* asymmetric hat, narrower than the knot spacing
              [] id = 4 -> <<R(-2), R(0), R(3)>>                                \* wider than the knot spacing
              [] id = 5 -> <<Norm(-1, 2), R(0), Norm(1, 2), Norm(3, 2)>>
              [] id = 6 -> <<R(-1), Norm(-1, 2), R(0), Norm(1, 2), R(1)>>       \* symmetric, 5 knots
              [] OTHER -> <<R(-1), Norm(-1, 2), R(0), Norm(1, 2), R(1), R(2)>>  \* 6 knots
VARIABLES src, kern
Init == src \in {i \in 0 .. 8 : Src(i).n <= MaxOrder} /\ kern = 0
Next == kern = 0 /\ kern' \in {k \in 1 .. 7 : Len(Kern(k)) <= MaxKernel /\ Src(src).n + Len(Kern(k)) - 1 <= MaxSum} /\ UNCHANGED src
Spec == Init /\ [][Next]_<<src, kern>>
RatJ(r) == <<r[1], r[2]>>
Check == kern # 0 =>
    LET s == Src(src)  tau == Kern(kern)  rho == ConvKnots(s.t, tau)
        lo == rho[1]  hi == rho[Len(rho)]
        xs == {x \in {Norm(k, Denom) : k \in (Denom * (s.t[1] - 3)) .. (Denom * (s.t[Len(s.t)] + 4))} : RLt(lo, x) /\ RLe(x, hi)}
        allones == \A i \in 1 .. Len(s.c) : s.c[i] = 1
        (* an all-ones table is identically 1 on its fully supported range [t_n, t_m]; convolved with a unit-area kernel it is 1 on [t_n + tau_q, t_m + tau_0] *)
        OnesOK == allones => \A x \in xs : (RLe(RAdd(R(s.t[s.n + 1]), tau[Len(tau)]), x) /\ RLe(x, RAdd(R(s.t[Len(s.t) - s.n]), tau[1]))) => ConvValue(s.c, s.t, s.n, tau, x) = One
    IN  /\ Assert(OnesOK, <<"all-ones not preserved", src, kern>>)
        /\ PrintT(ToJson([n |-> s.n, t |-> s.t, c |-> s.c, tau |-> [i \in 1 .. Len(tau) |-> RatJ(tau[i])], order |-> ConvOrder(s.n, tau),
                          knots |-> [i \in 1 .. Len(rho) |-> RatJ(rho[i])],
                          pts |-> LET RECURSIVE Q(_) Q(S) == IF S = {} THEN <<>> ELSE LET x == CHOOSE y \in S : \A z \in S : RLe(y, z) IN <<<<RatJ(x), RatJ(ConvValue(s.c, s.t, s.n, tau, x))>>>> \o Q(S \ {x}) IN Q(xs)]))
=============================================================================
