------------------------------ MODULE MC_Conv ------------------------------
(* generator of exact convolution values (C14) and self-checks of the reference *)
EXTENDS ConvAlgo, TLC, Json, IOUtils, FiniteSets
CONSTANTS MaxOrder, MaxKernel, Denom, MaxSum
Src(id) == CASE id = 0 -> [n |-> 0, t |-> <<0, 1, 3, 4>>, c |-> <<2, -1, 3>>]
             [] id = 1 -> [n |-> 1, t |-> <<0, 1, 3, 4, 6>>, c |-> <<1, -2, 3>>]
             [] id = 2 -> [n |-> 2, t |-> <<0, 1, 2, 4, 5, 7, 8>>, c |-> <<1, 3, -2, 2>>]
             [] id = 3 -> [n |-> 3, t |-> <<0, 1, 2, 3, 5, 6, 8, 9>>, c |-> <<2, -1, 1, 3>>]
             [] id = 4 -> [n |-> 4, t |-> <<0, 1, 2, 3, 4, 6, 7, 8, 9, 10>>, c |-> <<1, 2, -1, 0, 2>>]
             [] id = 5 -> [n |-> 5, t |-> <<0, 1, 2, 3, 4, 5, 6, 7, 8, 9, 10, 11>>, c |-> <<1, -1, 2, 0, 1, 1>>]
             [] id = 6 -> [n |-> 1, t |-> <<0, 2, 3, 4>>, c |-> <<1, 1>>]            \* all-ones coefficients: stays 1 in the interior
             [] id = 7 -> [n |-> 2, t |-> <<0, 1, 2, 3, 4, 5, 6>>, c |-> <<1, 1, 1, 1>>]
             [] OTHER -> [n |-> 3, t |-> <<0, 1, 2, 3, 4, 5, 6, 7>>, c |-> <<1, 1, 1, 1>>]
Kern(id) == CASE id = 1 -> <<R(0), R(1)>>                                       \* box
              [] id = 2 -> <<Norm(-1, 2), Norm(1, 2)>>                          \* symmetric box
              [] id = 3 -> <<Norm(-1, 2), R(0), R(1)>>                    \* asymmetric hat, narrower than the knot spacing
              [] id = 4 -> <<R(-2), R(0), R(3)>>                                \* wider than the knot spacing
              [] id = 5 -> <<Norm(-1, 2), R(0), Norm(1, 2), Norm(3, 2)>>
              [] id = 6 -> <<R(-1), Norm(-1, 2), R(0), Norm(1, 2), R(1)>>       \* symmetric, 5 knots
              [] OTHER -> <<R(-1), Norm(-1, 2), R(0), Norm(1, 2), R(1), R(2)>>  \* 6 knots
(***************************************************************************)
(* Systematic part: for every order n a few integer knot families of       *)
(* minimal length 2n+2 and two knots more, every unit coefficient vector   *)
(* (convolution is linear: each source basis function alone) and one mixed *)
(* vector; kernels are all increasing sequences of 2..MaxKernel points of  *)
(* a half-integer lattice.  Sel thins the product deterministically        *)
(* (Keep = 1: everything; the environment variable CONVSALT rotates the    *)
(* choice with the seed).                                                  *)
(***************************************************************************)
CONSTANTS Keep, OnlyN, OnlyF, OnlyQ, AlgoSum     \* AlgoSum: largest order + kernel degree for which the algorithm transcription is evaluated      \* Only* = 99: no restriction (used to probe the 32-bit limits)
Salt == IF "CONVSALT" \in DOMAIN IOEnv THEN atoi(IOEnv.CONVSALT) ELSE 0
Fam(f, len) == CASE f = 1 -> [i \in 1 .. len |-> i - 1]
                 [] f = 2 -> [i \in 1 .. len |-> 3 * ((i - 1) \div 2) + ((i - 1) % 2)]                  \* 0 1 3 4 6 7 ...
                 [] OTHER -> SubSeq(<<0, 1, 2, 4, 5, 6, 8, 9, 10, 12, 13, 14, 16, 17>>, 1, len)                     \* steps 1 1 2
SysSrc(n, f, extra, ci) ==
    LET len == 2 * n + 2 + extra
        nc == len - n - 1
    IN  [n |-> n, t |-> Fam(f, len),
         c |-> IF ci = 0 THEN [j \in 1 .. nc |-> IF j % 3 = 1 THEN 2 ELSE IF j % 3 = 2 THEN -1 ELSE 3]
               ELSE [j \in 1 .. nc |-> IF j = ci THEN 1 ELSE 0]]
Lat == <<R(-2), R(-1), Norm(-1, 2), R(0), Norm(1, 2), R(1), R(2)>>
RECURSIVE SeqOfSet(_)
SeqOfSet(S) == IF S = {} THEN <<>> ELSE LET m == CHOOSE x \in S : \A y \in S : x <= y IN <<Lat[m]>> \o SeqOfSet(S \ {m})
KernIds == {S \in SUBSET (1 .. Len(Lat)) : Cardinality(S) >= 2 /\ Cardinality(S) <= MaxKernel}
Code(S) == LET RECURSIVE H(_) H(T) == IF T = {} THEN 0 ELSE LET m == CHOOSE x \in T : TRUE IN 2 ^ m + H(T \ {m}) IN H(S)

(* largest order + kernel degree for which the exact arithmetic stays inside TLC's 32-bit integers, per knot family (probed) *)
SumLimit(f, n) == IF MaxSum < 99 THEN MaxSum ELSE CASE f = 1 -> 7 [] f = 2 -> (IF n = 2 THEN 5 ELSE 6) [] OTHER -> (IF n <= 1 THEN 6 ELSE 5)
VARIABLES src, kern
(* src: a record [n, f, extra, ci]; f = 0 marks the hand-written catalogue entry Src(ci).  kern: {} (not chosen), {100 + k}   *)
(* for the catalogue kernel Kern(k), or a set of lattice indices                                                            *)
IsSys(x) == x.f # 0
SrcOf(x) == IF IsSys(x) THEN SysSrc(x.n, x.f, x.extra, x.ci) ELSE Src(x.ci)
KernOf(k) == IF \E i \in k : i > 100 THEN Kern((CHOOSE i \in k : TRUE) - 100) ELSE SeqOfSet(k)
Init == kern = {} /\
        src \in {[n |-> Src(i).n, f |-> 0, extra |-> 0, ci |-> i] : i \in {i \in 0 .. 8 : Src(i).n <= MaxOrder /\ OnlyF = 99}} \cup
                {x \in [n : 0 .. MaxOrder, f : 1 .. 3, extra : {0, 2}, ci : 0 .. 8] : x.ci <= (2 * x.n + 2 + x.extra) - x.n - 1 /\ OnlyN \in {99, x.n} /\ OnlyF \in {99, x.f}}
Next == kern = {} /\ UNCHANGED src /\
        IF IsSys(src)
        THEN kern' \in {S \in KernIds : src.n + Cardinality(S) - 1 <= SumLimit(src.f, src.n) /\ OnlyQ \in {99, Cardinality(S) - 1}
                                         /\ (Code(S) + 7 * src.n + 3 * src.f + 5 * src.ci + src.extra + Salt) % Keep = 0}
        ELSE kern' \in {{100 + k} : k \in {k \in 1 .. 7 : Len(Kern(k)) <= MaxKernel /\ Src(src.ci).n + Len(Kern(k)) - 1 <= (IF MaxSum < 99 THEN MaxSum ELSE 6)}}
Spec == Init /\ [][Next]_<<src, kern>>
RatJ(r) == <<r[1], r[2]>>
Check == kern # {} =>
    LET s == SrcOf(src)  tau == KernOf(kern)  rho == ConvKnots(s.t, tau)
        lo == rho[1]  hi == rho[Len(rho)]
        xs == {x \in {Norm(k, Denom) : k \in (Denom * (s.t[1] - 3)) .. (Denom * (s.t[Len(s.t)] + 4))} : RLt(lo, x) /\ RLe(x, hi)}
        allones == \A i \in 1 .. Len(s.c) : s.c[i] = 1
        (* an all-ones table is identically 1 on its fully supported range [t_n, t_m]; convolved with a unit-area kernel it is 1 on [t_n + tau_q, t_m + tau_0] *)
        OnesOK == allones => \A x \in xs : (RLe(RAdd(R(s.t[s.n + 1]), tau[Len(tau)]), x) /\ RLe(x, RAdd(R(s.t[Len(s.t) - s.n]), tau[1]))) => ConvValue(s.c, s.t, s.n, tau, x) = One
        (* the algorithm of the code (ConvAlgo) gives the spline whose values are the exact convolution: compared strictly between *)
        (* the breakpoints too (right-continuous evaluation; breakpoints below the top behave the same, the top one is left out)   *)
        AlgoOK == (s.n + Len(tau) - 1 <= AlgoSum) =>
                     LET d == ConvCoefs(s.c, s.t, s.n, tau) IN
                     \A x \in xs : RLt(x, hi) => ValueOnRho(d, rho, s.n + Len(tau) - 1, x, Denom) = ConvValue(s.c, s.t, s.n, tau, x)
    IN  /\ Assert(OnesOK, <<"all-ones not preserved", s, tau>>)
        /\ Assert(AlgoOK, <<"blossoming algorithm differs from the exact convolution", s, tau>>)
        /\ PrintT(ToJson([n |-> s.n, t |-> s.t, c |-> s.c, tau |-> [i \in 1 .. Len(tau) |-> RatJ(tau[i])], order |-> ConvOrder(s.n, tau),
                          knots |-> [i \in 1 .. Len(rho) |-> RatJ(rho[i])],
                          pts |-> LET RECURSIVE Q(_) Q(S) == IF S = {} THEN <<>> ELSE LET x == CHOOSE y \in S : \A z \in S : RLe(y, z) IN <<<<RatJ(x), RatJ(ConvValue(s.c, s.t, s.n, tau, x))>>>> \o Q(S \ {x}) IN Q(xs)]))
=============================================================================
