SPECIFICATION Spec
CONSTANTS MaxDim = 4 CarryFromNext = FALSE
INVARIANTS Inv
CHECK_DEADLOCK FALSE
