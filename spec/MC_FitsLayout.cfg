SPECIFICATION Spec
CONSTANTS MaxDim = 3
INVARIANTS RoundTrip Legacy
CHECK_DEADLOCK FALSE
