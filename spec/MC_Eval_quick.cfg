SPECIFICATION Spec
CONSTANTS
  Orders = {0,1,2,3,4,5}
  ExtraLens = {0,1,3}
  Denom = 2
  TwoMods = FALSE
  MaxDeriv = 3
  EmitJson = TRUE
  MarginElseIf = FALSE
INVARIANTS Check
CHECK_DEADLOCK FALSE
