SPECIFICATION TSpec
CONSTANTS StopNeedsSolved = TRUE MaxIter = 120
INVARIANTS TInv Report
CHECK_DEADLOCK FALSE
