SPECIFICATION Spec
CONSTANTS Thorough = TRUE MaxN = 2 MaxTrials = 5 IterFactor = 3
INVARIANTS Inv
CHECK_DEADLOCK FALSE
