------------------------------ MODULE AuxStore ------------------------------
(***************************************************************************)
(* The auxiliary key store of a spline table (detail/aux.h, and the aux    *)
(* part of FITS serialisation) as an insertion-ordered map from key to     *)
(* string.  Keys and values are small integers; what they stand for (the   *)
(* concrete strings, their lengths, whether FITS can carry them) is given  *)
(* by the attribute operators below, which the conformance driver mirrors  *)
(* with the same ids (harness/aux_driver.cpp, tables KEYS and VALS).       *)
(*                                                                         *)
(* Writes are observed: the implementation may refuse more than FITS       *)
(* forces it to, but it MUST refuse what a FITS header cannot carry        *)
(* (MustReject), a refused write must leave the store unchanged, and an    *)
(* accepted one must behave as map insertion / in-place overwrite.         *)
(***************************************************************************)
EXTENDS Integers, Sequences, FiniteSets, TLC

CONSTANTS Keys, Vals, MaxLen

\* ------------------------------------------------------------------ attributes of the alphabet
\* key id -> <<class, length>>
KeyInfo(k) == CASE k = 1 -> <<"short", 1>>        \* "A"
                [] k = 2 -> <<"short", 8>>        \* "KEYEIGHT"
                [] k = 3 -> <<"long", 14>>        \* "ALONGERKEYNAME"           (HIERARCH convention)
                [] k = 4 -> <<"long", 38>>        \* "HIERARCHKEYWITHAVERYLONGNAME0123456789"
                [] k = 5 -> <<"reserved", 6>>     \* "ORDER7"
                [] k = 6 -> <<"reserved", 5>>     \* "TYPEX"
                [] k = 7 -> <<"lower", 5>>        \* "lower"
                [] k = 8 -> <<"lower", 16>>       \* "Mixedlongkeyname"
                [] k = 9 -> <<"empty", 0>>        \* ""
                [] k = 10 -> <<"blank", 6>>       \* "SP ACE"
                [] k = 11 -> <<"eq", 16>>         \* "LONGKEYWITH=SIGN"
                [] k = 12 -> <<"reserved", 5>>    \* "NAXIS"
                [] k = 13 -> <<"short", 7>>       \* "D2Y0Z19"
                [] k = 14 -> <<"reserved", 15>>   \* "ORDERING_SCHEME"  a long name is stored as a HIERARCH card, but the reader
                [] k = 15 -> <<"reserved", 11>>   \* "PERIODICITY"      filters cards by the same prefixes whatever their length,
                [] k = 16 -> <<"reserved", 13>>   \* "TYPE_OF_TABLE"    so an accepted one would not survive the round trip
                [] k = 17 -> <<"short", 5>>       \* "LOWER"             the upper-case spellings of keys 7 and 8: a lookup is by the
                [] k = 18 -> <<"long", 16>>       \* "MIXEDLONGKEYNAME"  exact string, "lower" stays absent while "LOWER" is present
                [] OTHER -> <<"short", 1>>
\* value id -> <<type, rendered length, number of single quotes, integer value (ints only)>>
ValInfo(v) == CASE v = 1 -> <<"int", 2, 0, 42>>
                [] v = 2 -> <<"int", 2, 0, -7>>
                [] v = 3 -> <<"double", 3, 0, 0>>      \* 2.5
                [] v = 4 -> <<"double", 5, 0, 0>>      \* 1e-30
                [] v = 5 -> <<"str", 0, 0, 0>>         \* ""
                [] v = 6 -> <<"str", 11, 0, 0>>        \* "hello world"
                [] v = 7 -> <<"str", 10, 0, 0>>        \* "trailing  "  (trailing blanks are not significant)
                [] v = 8 -> <<"str", 68, 0, 0>>        \* fills a standard card exactly
                [] v = 9 -> <<"str", 69, 0, 0>>        \* one more than any card takes
                [] v = 10 -> <<"str", 4, 1, 0>>        \* "it's"
                [] v = 11 -> <<"str", 53, 0, 0>>       \* fills a HIERARCH card for key 3 exactly (67-14)
                [] v = 12 -> <<"str", 54, 0, 0>>       \* one too many for key 3
                [] v = 13 -> <<"str", 29, 0, 0>>       \* fills a HIERARCH card for key 4 exactly (67-38)
                [] v = 14 -> <<"str", 30, 0, 0>>       \* one too many for key 4
                [] v = 15 -> <<"str", 68, 1, 0>>       \* 68 characters, the last one a quote: needs 69 on the card
                [] v = 16 -> <<"int", 10, 0, 2147483647>>
                [] v = 17 -> <<"str", 2, 2, 0>>        \* two adjacent quotes (four on the card)
                [] v = 18 -> <<"str", 5, 3, 0>>        \* a, three quotes, b
                [] v = 19 -> <<"str", 12, 2, 0>>       \* say QQ twice (QQ = two adjacent quotes)
                [] v = 20 -> <<"str", 34, 34, 0>>      \* 34 quotes: fills a standard card exactly
                [] v = 21 -> <<"str", 35, 35, 0>>      \* 35 quotes: 70 characters on the card
                [] v = 22 -> <<"str", 6, 3, 0>>        \* QxQ Qy : quotes at the start and inside
                [] OTHER -> <<"str", 1, 0, 0>>

KeyClass(k) == KeyInfo(k)[1]
KeyLen(k) == KeyInfo(k)[2]
(* characters available for the value text on the 80-character card *)
Capacity(k) == IF KeyClass(k) = "long" THEN 67 - KeyLen(k) ELSE 68
(* a quote inside a FITS string is written doubled *)
CardLen(v) == ValInfo(v)[2] + ValInfo(v)[3]
MustReject(k, v) == KeyClass(k) \in {"reserved", "empty", "lower", "blank", "eq"} \/ CardLen(v) > Capacity(k)

\* ------------------------------------------------------------------ the store
VARIABLES store,      \* Seq of <<key, value>>, insertion order
          last        \* the last operation with its observed outcome (for traces and replay generation)
vars == <<store, last>>

KeysOf(s) == {s[i][1] : i \in 1 .. Len(s)}
IndexOf(s, k) == CHOOSE i \in 1 .. Len(s) : s[i][1] = k
Lookup(s, k) == IF k \in KeysOf(s) THEN s[IndexOf(s, k)][2] ELSE 0        \* 0 = absent
Put(s, k, v) == IF k \in KeysOf(s) THEN [s EXCEPT ![IndexOf(s, k)] = <<k, v>>] ELSE Append(s, <<k, v>>)
Del(s, k) == IF k \in KeysOf(s) THEN SubSeq(s, 1, IndexOf(s, k) - 1) \o SubSeq(s, IndexOf(s, k) + 1, Len(s)) ELSE s

Init == store = <<>> /\ last = [op |-> "init"]

Write(k, v, accepted) ==
    /\ MustReject(k, v) => ~accepted
    /\ store' = IF accepted THEN Put(store, k, v) ELSE store
    /\ last' = [op |-> "write", k |-> k, v |-> v, acc |-> accepted]
Remove(k) ==
    /\ store' = Del(store, k)
    /\ last' = [op |-> "remove", k |-> k, ret |-> (k \in KeysOf(store))]
Get(k) ==
    /\ store' = store
    /\ last' = [op |-> "get", k |-> k, res |-> Lookup(store, k)]
(* serialise to FITS and read back into a fresh table: every accepted entry survives, in order *)
RoundTrip ==
    /\ store' = store
    /\ last' = [op |-> "roundtrip"]

Next == \/ \E k \in Keys, v \in Vals, a \in BOOLEAN : Write(k, v, a)
        \/ \E k \in Keys : Remove(k) \/ Get(k)
        \/ RoundTrip
Spec == Init /\ [][Next]_vars

\* ------------------------------------------------------------------ properties
NoDuplicateKeys == Cardinality(KeysOf(store)) = Len(store)
OnlyStorable == \A i \in 1 .. Len(store) : ~MustReject(store[i][1], store[i][2])
LookupIsLastWrite == last.op = "get" => last.res = Lookup(store, last.k)
Bound == Len(store) <= MaxLen
=============================================================================
