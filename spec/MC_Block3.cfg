SPECIFICATION FairSpec
CONSTANTS Thorough = FALSE StopNeedsSolved = TRUE MaxIter = 120
INVARIANTS Inv
PROPERTIES Descent Terminates
CHECK_DEADLOCK FALSE
