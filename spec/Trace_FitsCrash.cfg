SPECIFICATION TSpec
CONSTANTS Ops <- OpsDef Checked <- CheckedAll
INVARIANTS Report
POSTCONDITION TraceAccepted
CHECK_DEADLOCK FALSE
