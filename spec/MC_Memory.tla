------------------------------ MODULE MC_Memory ------------------------------
(* the size model is sufficient: Peak <= Estimate for every small file shape, kernel size and dimension *)
EXTENDS Memory
CONSTANTS MaxDim, Orders, Extras, AuxCounts, MaxNK
VARIABLES m, cd, nk
Metas == UNION {
            {[ndim |-> n, order |-> o, nknots |-> [d \in 1 .. n |-> 2 * o[d] + 2 + e[d]], naxes |-> [d \in 1 .. n |-> o[d] + 1 + e[d]],
              aux |-> [i \in 1 .. a |-> IF i % 3 = 0 THEN <<67, 0>> ELSE IF i % 3 = 1 THEN <<8, 68>> ELSE <<20, 47>>]]
             : o \in [1 .. n -> Orders], e \in [1 .. n -> Extras], a \in AuxCounts}
          : n \in 1 .. MaxDim}
Init == m \in Metas /\ cd \in 1 .. MaxDim /\ nk \in 1 .. MaxNK /\ cd <= m.ndim
Next == UNCHANGED <<m, cd, nk>>
Spec == Init /\ [][Next]_<<m, cd, nk>>
Sufficient == Peak(m, cd, nk) <= Estimate(m, cd, nk)
Sane == WellFormed(m) /\ WellFormed(ConvMeta(m, cd, nk))
=============================================================================
