SPECIFICATION Spec
CONSTANTS Ops <- OpsDef Checked <- CheckedAll
INVARIANTS SuccessIsHonest CrashReportsNothing
CHECK_DEADLOCK FALSE
