----------------------------- MODULE BlockPivot -----------------------------
(***************************************************************************)
(* nnls_normal_block (src/fitter/nnls.c): the block principal pivoting     *)
(* method of Portugal, Judice and Vicente as implemented - all infeasible  *)
(* coordinates change sides at once while that reduces the number of       *)
(* infeasibilities (with MAX_TRIALS = 5 tolerated steps without progress), *)
(* otherwise Murty's single-pivot rule on the infeasible coordinate with   *)
(* the largest index; at most 3 n iterations, after which the current      *)
(* point is returned whatever it is.  Exact rational arithmetic, KKT_TOL   *)
(* = 0.  One action per pass of the while loop.                            *)
(***************************************************************************)
EXTENDS Nnls, Sequences
CONSTANTS MaxTrials,          \* MAX_TRIALS of nnls.c (5)
          IterFactor          \* the iteration limit is IterFactor * n (3 in nnls.c)

VARIABLES n, A, b,
          F, G,               \* passive / active coordinates (sets; the C arrays are kept sorted)
          x, y,
          iter, trials, murty, ninf,
          pc                  \* "loop", "done" (left through nH1 = nH2 = 0), "cap" (iterations used up)
pvars == <<n, A, b>>
svars == <<F, G, x, y, iter, trials, murty, ninf, pc>>
All == 1 .. n
MaxOf(S) == CHOOSE m \in S : \A k \in S : k <= m

Start(nn, AA, bb) ==
    /\ n = nn /\ A = AA /\ b = bb /\ F = {} /\ G = 1 .. nn
    /\ x = [i \in 1 .. nn |-> Zero] /\ y = [i \in 1 .. nn |-> RNeg(bb[i])]
    /\ iter = IterFactor * nn /\ trials = MaxTrials /\ murty = MaxTrials /\ ninf = nn + 1 /\ pc = "loop"

Pass ==
    /\ pc = "loop"
    /\ IF iter = 0 THEN pc' = "cap" /\ UNCHANGED <<F, G, x, y, iter, trials, murty, ninf>>
       ELSE LET h1 == {i \in F : RSign(x[i]) < 0}
                h2 == {i \in G : RSign(y[i]) < 0}
                k == Cardinality(h1) + Cardinality(h2)
            IN  IF k = 0 THEN pc' = "done" /\ iter' = iter - 1 /\ UNCHANGED <<F, G, x, y, trials, murty, ninf>>
                ELSE LET tr0 == IF ninf <= murty THEN -1 ELSE trials
                         block == ninf > murty /\ (k < ninf \/ tr0 < -murty)
                         tr1 == IF block THEN MaxTrials ELSE tr0 - 1
                         single == ~block /\ tr1 < 0
                         H1 == IF ~single THEN h1
                               ELSE IF h2 = {} THEN {MaxOf(h1)} ELSE IF h1 = {} THEN {}
                               ELSE IF MaxOf(h1) > MaxOf(h2) THEN {MaxOf(h1)} ELSE {}
                         H2 == IF ~single THEN h2
                               ELSE IF h2 = {} THEN {} ELSE IF h1 = {} THEN {MaxOf(h2)}
                               ELSE IF MaxOf(h1) > MaxOf(h2) THEN {} ELSE {MaxOf(h2)}
                         Fn == (F \ H1) \cup H2
                         sol == IF Fn = {} THEN [i \in All |-> Zero] ELSE SolveOn(A, b, n, Fn)
                         g == Grad(A, b, n, sol)
                     IN  /\ F' = Fn /\ G' = All \ Fn
                         /\ x' = sol /\ y' = [i \in All |-> IF i \in Fn THEN Zero ELSE g[i]]
                         /\ trials' = tr1
                         /\ murty' = IF block /\ k <= ninf THEN murty + 1 ELSE murty
                         /\ ninf' = IF block THEN k ELSE ninf
                         /\ iter' = iter - 1 /\ pc' = "loop"
    /\ UNCHANGED pvars

(* ---------------------------------------------------------------- properties *)
Complementary == F \cap G = {} /\ F \cup G = All /\ (\A i \in G : x[i] = Zero) /\ (\A i \in F : y[i] = Zero)
Optimal == pc = "done" => KKT(A, b, n, x)
(* the iteration limit is a safety net: it is never what ends a run *)
CapNeverHit == pc # "cap"
=============================================================================
