SPECIFICATION Spec
CONSTANTS
  Objs = {1,2,3}
  Depth = 25
  ValidFiles = {1,2,3}
  InvalidFiles = {11,12,13,14,15,16}
  MaxFail = 14
INVARIANTS TypeOK Emit
CHECK_DEADLOCK FALSE
