SPECIFICATION Spec
CONSTANTS Thorough = FALSE MaxN = 3 StopNeedsSolved = FALSE MaxIter = 120
INVARIANTS Inv
CHECK_DEADLOCK FALSE
