SPECIFICATION Spec
CONSTANTS Thorough = FALSE StopNeedsSolved = FALSE MaxIter = 120
INVARIANTS Inv
CHECK_DEADLOCK FALSE
