--------------------------- MODULE Trace_Dispatch ---------------------------
(* every line: the bits that every evaluation path returned for one (table, point); C03: they are all the same *)
EXTENDS Integers, Sequences, FiniteSets, TLC, Json, IOUtils
TraceLog == ndJsonDeserialize(IOEnv.TRACE)
VARIABLES l, bad
Ev == TraceLog[l]
Same(s) == \A i \in 1 .. Len(s) : s[i] = s[1]
Groups == {"centers", "fvalue", "dvalue", "fmask", "dmask", "fgrad", "dgrad", "fderiv", "gradlane0_f", "gradlane0_d"}
Deviations == {g \in Groups : g \in DOMAIN Ev /\ ~Same(Ev[g])}
Devs(S) == LET RECURSIVE F(_) F(T) == IF T = {} THEN <<>> ELSE LET x == CHOOSE y \in T : TRUE IN <<[line |-> l, kind |-> x]>> \o F(T \ {x}) IN F(S)
TInit == l = 1 /\ bad = <<>>
TNext == l <= Len(TraceLog) /\ l' = l + 1 /\ bad' = bad \o Devs(Deviations)
TSpec == TInit /\ [][TNext]_<<l, bad>>
Report == l = Len(TraceLog) + 1 => PrintT(ToJson([deviations |-> bad, lines |-> Len(TraceLog)]))
TraceAccepted == TLCGet("stats").diameter - 1 = Len(TraceLog)
=============================================================================
