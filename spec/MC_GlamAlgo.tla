---------------------------- MODULE MC_GlamAlgo ----------------------------
(* small fitting problems (1..3 dimensions, orders 0..2, dense / missing / sparse data, unit and varying weights) through GlamAlgo!Assemble *)
EXTENDS GlamAlgo, TLC
CONSTANTS MaxDim
Ax(id) == CASE id = 1 -> [n |-> 0, t |-> <<0, 1, 2, 4>>]
            [] id = 2 -> [n |-> 1, t |-> <<0, 1, 3, 4, 6>>]
            [] OTHER -> [n |-> 2, t |-> <<0, 1, 2, 4, 5, 7>>]
(* abscissae: three or four points inside the knot range, not equidistant *)
Xs(id) == CASE id = 1 -> <<Norm(1, 2), Norm(3, 2), R(3)>>
            [] id = 2 -> <<Norm(1, 2), R(2), Norm(7, 2), R(5)>>
            [] OTHER -> <<Norm(1, 2), R(1), Norm(5, 2), Norm(9, 2), R(6)>>
BasisOf(id) == [p \in 1 .. Len(Xs(id)) |-> [j \in 1 .. Len(Ax(id).t) - Ax(id).n - 1 |-> B(Ax(id).t, Ax(id).n, j - 1, Xs(id)[p], "R")]]
VARIABLES axes, pat
Init == axes \in UNION {[1 .. nd -> 1 .. 3] : nd \in 1 .. MaxDim} /\ pat = 0
Next == pat = 0 /\ pat' \in 1 .. 4 /\ UNCHANGED axes
Spec == Init /\ [][Next]_<<axes, pat>>
Check == pat # 0 =>
    LET nd == Len(axes)
        g == [d \in 1 .. nd |-> Len(Xs(axes[d]))]
        total == ProdSeq(g)
        keep(f) == CASE pat = 1 -> TRUE [] pat = 2 -> (f * 7 + 3) % 10 >= 3 [] pat = 3 -> (f * 11 + 5) % 10 >= 5 [] OTHER -> f % 2 = 1
        data == {[i |-> Unflatten(f - 1, g), w |-> IF pat = 4 THEN R(1 + ((f * 3) % 5)) ELSE One, z |-> R(((f * 5) % 11) - 5)] : f \in {h \in 1 .. total : keep(h)}}
        mats == [d \in 1 .. nd |-> BasisOf(axes[d])]
    IN  Assert(AssemblyCorrect(g, data, mats), <<"GLAM assembly differs from B'WB / B'Wz", axes, pat>>)
=============================================================================
