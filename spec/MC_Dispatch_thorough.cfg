SPECIFICATION Spec
CONSTANTS MaxDim = 9 EmitJson = TRUE AllUpTo = 3
INVARIANTS Facts Emit
CHECK_DEADLOCK FALSE
