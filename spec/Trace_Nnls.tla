----------------------------- MODULE Trace_Nnls -----------------------------
(* judges the observations of nnls_driver (C11): termination, non-negativity, KKT on sign classes, distance to the exact minimiser *)
EXTENDS Nnls, Json, IOUtils, Sequences
TraceLog == ndJsonDeserialize(IOEnv.TRACE)
VARIABLES l, bad
Ev == TraceLog[l]
Deviations ==
    IF ~Ev.returned THEN {"solver-returned-nothing"}
    ELSE (IF ~Ev.finite THEN {"non-finite-result"} ELSE {}) \cup
         (IF Ev.solver = "block3" /\ ~Ev.exact_nonneg THEN {"negative-component-from-block3"} ELSE {}) \cup
         (IF \E i \in 1 .. Len(Ev.x) : Ev.x[i] = "neg" THEN {"negative-beyond-tolerance"} ELSE {}) \cup
         (IF ~KKTClasses(Ev.x, Ev.g) /\ ~(\E i \in 1 .. Len(Ev.x) : Ev.x[i] = "neg") THEN {"kkt-violated"} ELSE {}) \cup
         (IF Ev.has_ref /\ ~Ev.dist_ok THEN {"not-the-constrained-minimiser"} ELSE {})
Devs(S) == LET RECURSIVE G(_) G(X) == IF X = {} THEN <<>> ELSE LET x == CHOOSE y \in X : TRUE IN <<[line |-> l, kind |-> x]>> \o G(X \ {x}) IN G(S)
TInit == l = 1 /\ bad = <<>>
TNext == l <= Len(TraceLog) /\ l' = l + 1 /\ bad' = bad \o Devs(Deviations)
TSpec == TInit /\ [][TNext]_<<l, bad>>
Report == l = Len(TraceLog) + 1 => PrintT(ToJson([deviations |-> bad, lines |-> Len(TraceLog)]))
TraceAccepted == TLCGet("stats").diameter - 1 = Len(TraceLog)
=============================================================================
