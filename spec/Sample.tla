------------------------------- MODULE Sample -------------------------------
(***************************************************************************)
(* splinetable::sample (include/photospline/detail/sample.h): the          *)
(* Metropolis-Hastings sampler that draws points distributed like the      *)
(* (transformed) spline surface, with an independence proposal.  No listed *)
(* property names it; this module is part of the growing specification.    *)
(*                                                                         *)
(* One action per call the sampler makes to its collaborators, because     *)
(* those calls are what a caller can observe:                              *)
(*   Draw0 / Draw   distribution.sample(rng)        a proposal is drawn     *)
(*   Pdf0 / Pdf     distribution(p), transform(x, eval(x))                  *)
(*   Unif           acceptor(rng)                   a uniform is drawn      *)
(* The proposals and the uniforms are inputs (nondeterministic here, a      *)
(* script in the conformance driver).                                      *)
(*                                                                         *)
(* A position p is an element of Positions; what it stands for is given by *)
(* the operators below, which the model-checking module defines for small  *)
(* finite examples and the trace module takes from the recorded run:       *)
(*   Usable(p)   inside the extents of every sampled dimension AND inside   *)
(*               the knot range (searchcenters succeeds)                    *)
(*   Dens(p)     <<num, den, sign>> transformed density at p (any sign; sign *)
(*               tells -0.0 from +0.0, which matters for x/0)               *)
(*   Prop(p)     <<num, den>> > 0, proposal density at p                    *)
(***************************************************************************)
EXTENDS Rat, Sequences, FiniteSets, TLC

CONSTANTS Positions, NResults, Burnin, Uniforms,
          Usable(_), Dens(_), Prop(_)

VARIABLES pc,        \* "draw0", "pdf0", "draw", "pdf", "unif", "done"
          cur,       \* the current point of the chain
          cand,      \* the proposal under consideration
          k, j,      \* results recorded, proposals used for the current result
          results,   \* Seq of positions
          nS, nP, nU \* calls made so far: proposals drawn, densities evaluated, uniforms drawn
svars == <<pc, cur, cand, k, j, results, nS, nP, nU>>

NoPos == 0          \* positions are positive integers

(* ---- IEEE reading of  odds = (pxp/px) * (propx/propxp)  with propx, propxp > 0 ---- *)
DRat(d) == <<d[1], d[2]>>
DSign(d) == IF d[1] # 0 THEN Sgn(d[1]) ELSE d[3]
\* "pinf", "ninf", "nan", or <<"fin", rational>>
Odds(px, pxp, propx, propxp) ==
    IF px[1] # 0 THEN <<"fin", RMul(RDiv(DRat(pxp), DRat(px)), RDiv(propx, propxp))>>
    ELSE IF pxp[1] = 0 THEN <<"nan">>
    ELSE IF DSign(pxp) * DSign(px) > 0 THEN <<"pinf">> ELSE <<"ninf">>
AboveOne(o) == o[1] = "pinf" \/ (o[1] = "fin" /\ RLt(One, o[2]))
\* the comparison  u < odds  (false for NaN)
Below(u, o) == o[1] = "pinf" \/ (o[1] = "fin" /\ RLt(u, o[2]))
OddsOf(from, to) == Odds(Dens(from), Dens(to), Prop(from), Prop(to))

Init == pc = "draw0" /\ cur = NoPos /\ cand = NoPos /\ k = 0 /\ j = 0 /\ results = <<>> /\ nS = 0 /\ nP = 0 /\ nU = 0

(* one iteration of the inner loop is over: count it, record the current point after Burnin + 1 of them *)
Advance(newcur) ==
    /\ cur' = newcur /\ cand' = NoPos
    /\ IF j = Burnin
       THEN /\ results' = Append(results, newcur) /\ k' = k + 1 /\ j' = 0
            /\ pc' = IF k + 1 = NResults THEN "done" ELSE "draw"
       ELSE /\ results' = results /\ k' = k /\ j' = j + 1 /\ pc' = "draw"

Draw0(p) == /\ pc = "draw0" /\ nS' = nS + 1 /\ UNCHANGED <<k, j, results, nP, nU, cand>>
            /\ IF Usable(p) THEN cur' = p /\ pc' = "pdf0" ELSE cur' = cur /\ pc' = "draw0"
Pdf0 == /\ pc = "pdf0" /\ nP' = nP + 1 /\ UNCHANGED <<cur, cand, k, j, results, nS, nU>>
        /\ pc' = IF NResults = 0 THEN "done" ELSE "draw"
Draw(p) == /\ pc = "draw" /\ nS' = nS + 1 /\ UNCHANGED <<nP, nU>>
           /\ IF Usable(p) THEN pc' = "pdf" /\ cand' = p /\ UNCHANGED <<cur, k, j, results>>
              ELSE Advance(cur)                    \* an unusable proposal still uses up one iteration
Pdf == /\ pc = "pdf" /\ nP' = nP + 1 /\ UNCHANGED <<nS, nU>>
       /\ IF AboveOne(OddsOf(cur, cand)) THEN Advance(cand)         \* accepted without consulting the uniform
          ELSE pc' = "unif" /\ UNCHANGED <<cur, cand, k, j, results>>
Unif(u) == /\ pc = "unif" /\ nU' = nU + 1 /\ UNCHANGED <<nS, nP>>
           /\ Advance(IF Below(u, OddsOf(cur, cand)) THEN cand ELSE cur)

(* Where the exact odds equal one, the double-precision odds of the implementation may fall on either side of one: the   *)
(* alternative reading, used by the trace specification only (the next recorded call tells which one was taken).  The      *)
(* uniforms of the conformance driver are multiples of 1/8191, a prime that no odds of its configurations contain, so      *)
(* u = odds happens only for u = odds = 0, where the comparison is exact.                                                  *)
PdfTie == /\ pc = "pdf" /\ OddsOf(cur, cand) = <<"fin", One>> /\ nP' = nP + 1 /\ UNCHANGED <<nS, nU>> /\ Advance(cand)

Next == (\E p \in Positions : Draw0(p) \/ Draw(p)) \/ Pdf0 \/ Pdf \/ (\E u \in Uniforms : Unif(u))
Spec == Init /\ [][Next]_svars

(* ------------------------------------------------------------------ properties *)
TypeOK == /\ pc \in {"draw0", "pdf0", "draw", "pdf", "unif", "done"}
          /\ k \in 0 .. NResults /\ j \in 0 .. Burnin /\ Len(results) = k
(* every recorded point (and the chain itself) is a point the table can be evaluated at *)
ResultsUsable == /\ \A i \in 1 .. Len(results) : Usable(results[i])
                 /\ (pc \notin {"draw0"} => Usable(cur))
(* the chain never leaves the support of the target once it is inside: a move to a point of density <= 0 from one *)
(* of density > 0 is never accepted                                                                           *)
StaysInSupport == \A i \in 1 .. Len(results) - 1 : Dens(results[i])[1] > 0 => Dens(results[i + 1])[1] > 0
(* call accounting: exactly Burnin + 1 proposals per result after the initial point was found; a density is *)
(* evaluated for usable proposals only; a uniform only when the odds do not exceed one                      *)
Accounting == /\ nP <= nS /\ nU <= nP
              /\ (pc = "done" /\ NResults > 0 => \E n0 \in 1 .. nS : nS = n0 + NResults * (Burnin + 1))

(* Detailed balance of the transition kernel with respect to the target density, the defining property of the  *)
(* method: for usable x # y of positive density                                                               *)
(*      Dens(x) * Prop(y) * A(x, y) = Dens(y) * Prop(x) * A(y, x),   A = probability of acceptance             *)
(* where, the uniform being uniform on [0, 1), A(x, y) = min(1, max(0, odds)).                                 *)
AcceptProb(x, y) == LET o == OddsOf(x, y)
                    IN  IF AboveOne(o) THEN One
                        ELSE IF o[1] = "fin" /\ RLt(Zero, o[2]) THEN o[2] ELSE Zero
DetailedBalance ==
    \A x, y \in Positions :
        (x # y /\ Usable(x) /\ Usable(y) /\ Dens(x)[1] > 0 /\ Dens(y)[1] > 0) =>
            RMul(RMul(DRat(Dens(x)), Prop(y)), AcceptProb(x, y)) = RMul(RMul(DRat(Dens(y)), Prop(x)), AcceptProb(y, x))
=============================================================================
