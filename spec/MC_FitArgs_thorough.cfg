SPECIFICATION Spec
CONSTANTS MaxBad = 2 Dims = {1,2,3}
INVARIANTS AllowedNonEmpty Emit
CHECK_DEADLOCK FALSE
