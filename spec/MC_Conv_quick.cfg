SPECIFICATION Spec
CONSTANTS MaxOrder = 5 MaxKernel = 7 Denom = 2 MaxSum = 99 MarginElseIf = FALSE OnlyN = 99 OnlyF = 99 OnlyQ = 99 AlgoSum = 5 Keep = 29
INVARIANTS Check
CHECK_DEADLOCK FALSE
