SPECIFICATION Spec
CONSTANTS MaxOrder = 3 MaxKernel = 4 Denom = 2 MaxSum = 6 MarginElseIf = FALSE
INVARIANTS Check
CHECK_DEADLOCK FALSE
