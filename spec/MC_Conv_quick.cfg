SPECIFICATION Spec
CONSTANTS MaxOrder = 5 MaxKernel = 5 Denom = 2 MaxSum = 6 MarginElseIf = FALSE OnlyN = 99 OnlyF = 99 OnlyQ = 99 Keep = 5
INVARIANTS Check
CHECK_DEADLOCK FALSE
