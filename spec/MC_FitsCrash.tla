---------------------------- MODULE MC_FitsCrash ----------------------------
(* FitsCrash instantiated with the operation kinds recorded from the real writer (environment variable OPS names an *)
(* ndjson file whose first line is the list of kinds), or with a built-in example when OPS is not set                *)
EXTENDS FitsCrash, Json, IOUtils
OpsDef == IF "OPS" \in DOMAIN IOEnv THEN ndJsonDeserialize(IOEnv.OPS)[1] ELSE <<"open", "write", "write", "seek", "write", "flush", "close">>
CheckedAll == {"open", "write", "seek", "flush", "close"}
CheckedPinned == {"open", "write", "seek"}
=============================================================================
