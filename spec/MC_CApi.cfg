SPECIFICATION Spec
CONSTANTS Handles = {1,2} Depth = 4 ValidFiles = {1} InvalidFiles = {11}
INVARIANTS TypeOK
CHECK_DEADLOCK FALSE
