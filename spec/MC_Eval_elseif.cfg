\* demonstration configuration: the pinned tree's `else if` between the two margin loops.
\* TLC reports the violation of AlgoMatchesDef for a knot vector of minimal length.
SPECIFICATION Spec
CONSTANTS
  Orders = {1,2}
  ExtraLens = {0}
  Denom = 2
  TwoMods = FALSE
  MaxDeriv = 1
  EmitJson = FALSE
  MarginElseIf = TRUE
INVARIANTS Check
CHECK_DEADLOCK FALSE
