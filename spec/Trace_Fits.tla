----------------------------- MODULE Trace_Fits -----------------------------
(***************************************************************************)
(* Deviation-collecting trace validation for FITS serialisation (C06) and  *)
(* for reading damaged / foreign files (C07).                              *)
(*  {"op":"write","T":table,"F":file}      file parsed by the independent  *)
(*                                         codec from the bytes written    *)
(*  {"op":"read","F":file,"ok":b,"T":t}    file produced by the codec,     *)
(*                                         table as the library loaded it  *)
(*  {"op":"roundtrip", flags}              write -> read of the library    *)
(*  {"op":"damaged","ok":b,"empty":b,"W":t, "battery":s}  C07 outcome      *)
(***************************************************************************)
EXTENDS FitsLayout, Json, IOUtils
TraceLog == ndJsonDeserialize(IOEnv.TRACE)
VARIABLES l, bad
Ev == TraceLog[l]

Pairs(s) == [i \in 1 .. Len(s) |-> <<s[i][1], s[i][2]>>]
NormT(t) == [ndim |-> t.ndim, order |-> t.order, naxes |-> t.naxes, knots |-> t.knots, coef |-> t.coef,
             extents |-> Pairs(t.extents), periods |-> t.periods, aux |-> Pairs(t.aux)]
NormF(f) == [i \in 1 .. Len(f) |-> [name |-> f[i].name, bitpix |-> f[i].bitpix, axes |-> f[i].axes, cards |-> Pairs(f[i].cards), data |-> f[i].data]]
(* card order among the reserved keys and the order of the extensions are not part of the layout *)
CanonH(h) == [name |-> h.name, bitpix |-> h.bitpix, axes |-> h.axes, data |-> h.data,
              reserved |-> {h.cards[i] : i \in {j \in 1 .. Len(h.cards) : Reserved(h.cards[j][1])}},
              aux |-> SelectSeq(h.cards, LAMBDA c : ~Reserved(c[1]))]
Canon(f) == <<CanonH(f[1]), {CanonH(f[i]) : i \in 2 .. Len(f)}, Len(f)>>

Deviations ==
    CASE Ev.op = "write" ->
            LET f == NormF(Ev.F)  want == WriteT(NormT(Ev.T)) IN
            IF Canon(f) = Canon(want) THEN {}
            ELSE IF Len(f) # Len(want) THEN {"write-hdu-count"}
            ELSE IF CanonH(f[1]).axes # CanonH(want[1]).axes THEN {"write-primary-axes"}
            ELSE IF CanonH(f[1]).data # CanonH(want[1]).data THEN {"write-coefficients"}
            ELSE IF CanonH(f[1]).reserved # CanonH(want[1]).reserved THEN {"write-header-keys"}
            ELSE IF CanonH(f[1]).aux # CanonH(want[1]).aux THEN {"write-aux"}
            ELSE {"write-extensions"}
      [] Ev.op = "read" ->
            LET f == NormF(Ev.F) IN
            IF ~Readable(f) THEN {}
            ELSE IF ~Ev.ok THEN {"read-rejected-valid-file"}
            ELSE LET t == NormT(Ev.T)  want == ReadF(f) IN
                 IF t = want THEN {}
                 ELSE {x \in {"ndim", "order", "naxes", "knots", "coef", "extents", "periods", "aux"} :
                          (CASE x = "ndim" -> t.ndim # want.ndim [] x = "order" -> t.order # want.order [] x = "naxes" -> t.naxes # want.naxes
                             [] x = "knots" -> t.knots # want.knots [] x = "coef" -> t.coef # want.coef [] x = "extents" -> t.extents # want.extents
                             [] x = "periods" -> t.periods # want.periods [] OTHER -> t.aux # want.aux)}
      [] Ev.op = "roundtrip" ->
            {x \in {"equal", "evalsame", "strides", "extents", "aux"} :
                (CASE x = "equal" -> ~Ev.equal [] x = "evalsame" -> ~Ev.evalsame [] x = "strides" -> ~Ev.strides [] x = "extents" -> ~Ev.extents [] OTHER -> ~Ev.aux)}
      [] Ev.op = "damaged" ->
            IF ~Ev.ok THEN (IF Ev.empty THEN {} ELSE {"failed-read-left-object-dirty"})
            ELSE (IF ~WellFormedShape(Ev.W) THEN {"loaded-malformed-shape"} ELSE {}) \cup
                 (IF WellFormedShape(Ev.W) /\ ~KnotsOrdered(Ev.W) THEN {"loaded-bad-knots"} ELSE {}) \cup
                 (IF Ev.battery # "ok" THEN {"battery-unsafe"} ELSE {})
      [] OTHER -> {}
Devs(S) == LET RECURSIVE G(_) G(X) == IF X = {} THEN <<>> ELSE LET x == CHOOSE y \in X : TRUE IN <<[line |-> l, kind |-> x]>> \o G(X \ {x}) IN G(S)
TInit == l = 1 /\ bad = <<>>
TNext == l <= Len(TraceLog) /\ l' = l + 1 /\ bad' = bad \o Devs(Deviations)
TSpec == TInit /\ [][TNext]_<<l, bad>>
Report == l = Len(TraceLog) + 1 => PrintT(ToJson([deviations |-> bad, lines |-> Len(TraceLog)]))
TraceAccepted == TLCGet("stats").diameter - 1 = Len(TraceLog)
=============================================================================
