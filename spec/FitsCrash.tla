----------------------------- MODULE FitsCrash -----------------------------
(***************************************************************************)
(* Writing a table to a file as the sequence of file operations the writer *)
(* issues (recorded from the real writer by the stdio interposer), with    *)
(* crashes after any prefix and single failing operations (property C08).  *)
(*   Ops      sequence of operation kinds: "open","write","seek","flush",  *)
(*            "close"  (lengths do not matter to the protocol)             *)
(*   Checked  kinds whose failure the writer turns into a reported failure *)
(* The model is checked twice: Checked = all kinds (what the property      *)
(* needs) holds; Checked without "flush"/"close" (the pinned tree, whose   *)
(* scope guard only prints the close status) violates SuccessIsHonest.     *)
(* Judge is the contract applied to observed scenarios (Trace_FitsCrash).  *)
(***************************************************************************)
EXTENDS Integers, Sequences, TLC
CONSTANTS Ops, Checked

VARIABLES k, fault, crashed, reported
vars == <<k, fault, crashed, reported>>
Init == k = 0 /\ fault = 0 /\ crashed = FALSE /\ reported = "none"

Step == ~crashed /\ reported = "none" /\ k < Len(Ops) /\ fault = 0 /\ k' = k + 1 /\ UNCHANGED <<fault, crashed, reported>>
(* operation k+1 fails; the writer notices iff it checks that kind of call *)
Fail == ~crashed /\ reported = "none" /\ k < Len(Ops) /\ fault = 0 /\ fault' = k + 1 /\ k' = k + 1
        /\ reported' = (IF Ops[k + 1] \in Checked THEN "failure" ELSE "none") /\ UNCHANGED crashed
(* the writer carries on after an unnoticed failure *)
Continue == ~crashed /\ reported = "none" /\ fault # 0 /\ k < Len(Ops) /\ k' = k + 1 /\ UNCHANGED <<fault, crashed, reported>>
Crash == ~crashed /\ reported = "none" /\ crashed' = TRUE /\ UNCHANGED <<k, fault, reported>>
Finish == ~crashed /\ reported = "none" /\ k = Len(Ops) /\ reported' = "success" /\ UNCHANGED <<k, fault, crashed>>
Next == Step \/ Fail \/ Continue \/ Crash \/ Finish
Spec == Init /\ [][Next]_vars

SuccessIsHonest == reported = "success" => fault = 0
CrashReportsNothing == crashed => reported = "none"

(* ---------------------------------------------------------------- contract on observations *)
Judge(e) ==
    CASE e.kind = "clean" -> (IF e.reported # "success" THEN {"healthy-write-reported-failure"} ELSE {}) \cup
                             (IF e.verdict # "equal" THEN {"healthy-write-does-not-read-back-equal"} ELSE {})
      [] e.kind = "crash" -> IF e.verdict \notin {"reject", "equal", "missing"} THEN {"partial-file-loads-as-another-table"} ELSE {}
      [] e.kind = "fail" -> (IF e.reported = "success" /\ e.verdict # "equal" THEN {"failure-reported-as-success"} ELSE {}) \cup
                            (IF e.verdict \notin {"reject", "equal", "missing"} THEN {"partial-file-loads-as-another-table"} ELSE {})
      [] OTHER -> {}
=============================================================================
