SPECIFICATION Spec
CONSTANTS MaxDim = 2 MaxMut = 1 Pairs = FALSE
INVARIANTS Emit
CHECK_DEADLOCK FALSE
