SPECIFICATION Spec
CONSTANTS Thorough = FALSE MaxN = 3 MaxTrials = 5 IterFactor = 1
INVARIANTS Inv
CHECK_DEADLOCK FALSE
