SPECIFICATION Spec
CONSTANTS MaxOrder = 5 MaxKernel = 6 Denom = 2 MaxSum = 6 MarginElseIf = FALSE OnlyN = 99 OnlyF = 99 OnlyQ = 99 Keep = 2
INVARIANTS Check
CHECK_DEADLOCK FALSE
