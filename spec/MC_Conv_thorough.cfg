SPECIFICATION Spec
CONSTANTS MaxOrder = 5 MaxKernel = 6 Denom = 2 MaxSum = 6 MarginElseIf = FALSE
INVARIANTS Check
CHECK_DEADLOCK FALSE
