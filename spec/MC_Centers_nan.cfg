\* demonstration: the pinned tree's range test lets NaN through; TLC reports CoefOwned violated
SPECIFICATION Spec
CONSTANTS
  Orders = {3,4}
  ExtraLens = {0}
  Gaps = {0,1}
  RejectNaN = FALSE
  EmitJson = FALSE
  MarginElseIf = FALSE
INVARIANTS CoefOwned
CHECK_DEADLOCK FALSE
