------------------------------ MODULE Dispatch ------------------------------
(***************************************************************************)
(* The decision table of splinetable::get_evaluator (detail/bspline_eval.h)*)
(* and the path-independence property C03.  Routine(nd, ord, templates)    *)
(* names the core the evaluator object selects; whatever it selects, every *)
(* path must return the same bits as the generic member functions.         *)
(* The state space enumerates dimension counts 1..9 x order patterns and   *)
(* emits one configuration per state for the conformance driver, which     *)
(* reports the bits returned by every path; Trace_Dispatch judges them.    *)
(***************************************************************************)
EXTENDS Integers, Sequences, FiniteSets, TLC, Json

CONSTANTS MaxDim, EmitJson, AllUpTo   \* every order tuple over 0..5 for tables of at most AllUpTo dimensions

AllEqual(s) == \A i \in 1 .. Len(s) : s[i] = s[1]
Routine(nd, ord, templates) ==
    IF ~templates THEN <<"Generic">>
    ELSE IF ord = <<2, 2, 2, 3, 2, 2>> THEN <<"Known", 3>>
    ELSE IF ord = <<2, 2, 2, 5, 2, 2>> THEN <<"Known", 5>>
    ELSE IF AllEqual(ord) /\ ord[1] \in {2, 3}
         THEN (IF nd <= 8 THEN <<"Fixed", nd, ord[1]>> ELSE <<"Generic">>)
         ELSE (IF nd <= 8 THEN <<"CoreD", nd>> ELSE <<"Generic">>)

IsGeneric(r) == r[1] = "Generic"

(* order patterns: all k; the two known mixed lists; mixed patterns that differ in the first / a middle / the last dimension *)
Patterns(nd) ==
    {[d \in 1 .. nd |-> k] : k \in 0 .. 5} \cup
    (IF nd = 6 THEN {<<2, 2, 2, 3, 2, 2>>, <<2, 2, 2, 5, 2, 2>>, <<2, 2, 3, 2, 2, 2>>} ELSE {}) \cup
    (IF nd >= 2 THEN {[d \in 1 .. nd |-> IF d = 1 THEN 3 ELSE 2], [d \in 1 .. nd |-> IF d = nd THEN 3 ELSE 2],
                      [d \in 1 .. nd |-> IF d = (nd + 1) \div 2 THEN 1 ELSE 3], [d \in 1 .. nd |-> (d * 2) % 4],
                      [d \in 1 .. nd |-> IF d % 2 = 0 THEN 0 ELSE 2],
                      \* the largest order lies behind the first dimension whose order differs from the first one (any per-table
                      \* quantity computed while scanning for "all orders equal" must not stop at the first difference)
                      [d \in 1 .. nd |-> (d - 1) % 4], [d \in 1 .. nd |-> 3 - ((d - 1) % 4)],
                      [d \in 1 .. nd |-> IF d = nd THEN 5 ELSE IF d = 1 THEN 3 ELSE 2],
                      [d \in 1 .. nd |-> IF d = 1 THEN 2 ELSE IF d = 2 THEN 1 ELSE 4]}
     ELSE {}) \cup
    (IF nd <= AllUpTo THEN [1 .. nd -> 0 .. 5] ELSE {})

VARIABLES nd, ord
Init == nd \in 1 .. MaxDim /\ ord = <<>>
Next == ord = <<>> /\ ord' \in Patterns(nd) /\ UNCHANGED nd
Spec == Init /\ [][Next]_<<nd, ord>>

(* design facts about the table *)
Facts ==
    ord # <<>> =>
        /\ (nd > 8 => IsGeneric(Routine(nd, ord, TRUE)))
        /\ IsGeneric(Routine(nd, ord, FALSE))
        /\ (nd <= 8 => ~IsGeneric(Routine(nd, ord, TRUE)))
Emit == (ord # <<>> /\ EmitJson) =>
            PrintT(ToJson([nd |-> nd, ord |-> ord, generic_t |-> IsGeneric(Routine(nd, ord, TRUE)), routine |-> Routine(nd, ord, TRUE)[1]]))
=============================================================================
