SPECIFICATION Spec
CONSTANTS MaxDim = 2 MarginElseIf = FALSE
INVARIANTS Check
CHECK_DEADLOCK FALSE
