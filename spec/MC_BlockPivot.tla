---------------------------- MODULE MC_BlockPivot ----------------------------
(* all small integer SPD systems (the catalogue of MC_Nnls) run through the algorithm of BlockPivot *)
EXTENDS BlockPivot, TLC
CONSTANTS Thorough, MaxN
Diag == IF Thorough THEN 1 .. 4 ELSE 1 .. 3
Off == IF Thorough THEN -2 .. 3 ELSE -2 .. 2
Rhs == IF Thorough THEN -2 .. 3 ELSE {-2, 0, 1, 3}
MatOf(nn, d, o) == [i \in 1 .. nn |-> [j \in 1 .. nn |->
                      IF i = j THEN R(d[i])
                      ELSE LET lo == IF i < j THEN i ELSE j  hi == IF i < j THEN j ELSE i
                               idx == IF nn = 2 THEN 1 ELSE (IF lo = 1 THEN hi - 1 ELSE 3)
                           IN  R(o[idx])]]
vars == <<pvars, svars>>
Init == n \in 1 .. MaxN /\ A = <<>> /\ b = <<>> /\ F = {} /\ G = {} /\ x = <<>> /\ y = <<>> /\ iter = 0 /\ trials = 0 /\ murty = 0 /\ ninf = 0 /\ pc = "pickA"
PickA == pc = "pickA" /\ \E d \in [1 .. n -> Diag] : \E o \in [1 .. (n * (n - 1)) \div 2 -> Off] :
            /\ SPD(MatOf(n, d, o), n) /\ A' = MatOf(n, d, o) /\ pc' = "pickB"
            /\ UNCHANGED <<n, b, F, G, x, y, iter, trials, murty, ninf>>
PickB == pc = "pickB" /\ \E v \in [1 .. n -> Rhs] :
            /\ b' = [i \in 1 .. n |-> R(v[i])] /\ F' = {} /\ G' = 1 .. n
            /\ x' = [i \in 1 .. n |-> Zero] /\ y' = [i \in 1 .. n |-> R(-v[i])]
            /\ iter' = IterFactor * n /\ trials' = MaxTrials /\ murty' = MaxTrials /\ ninf' = n + 1 /\ pc' = "loop" /\ UNCHANGED <<n, A>>
Next == PickA \/ PickB \/ Pass
Spec == Init /\ [][Next]_vars
Running == pc \in {"loop", "done", "cap"}
Inv == Running => Complementary /\ Optimal /\ CapNeverHit
=============================================================================
