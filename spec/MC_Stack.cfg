SPECIFICATION Spec
CONSTANTS MaxDim = 2 MaxN = 4 MarginElseIf = FALSE
INVARIANTS Check
CHECK_DEADLOCK FALSE
