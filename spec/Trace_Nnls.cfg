SPECIFICATION TSpec
INVARIANTS Report
POSTCONDITION TraceAccepted
CHECK_DEADLOCK FALSE
