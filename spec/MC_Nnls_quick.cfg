SPECIFICATION Spec
CONSTANTS Thorough = FALSE EmitJson = TRUE
INVARIANTS Check
CHECK_DEADLOCK FALSE
