------------------------------ MODULE Convolve ------------------------------
(***************************************************************************)
(* Exact reference for convolving a 1-D spline with the unit-area B-spline *)
(* on kernel knots tau_0 < ... < tau_q (property C14), independent of the  *)
(* blossoming algorithm of convolve.cpp.                                   *)
(*                                                                         *)
(*   M_tau(t) = q [tau_0..tau_q]_v (v - t)_+^(q-1)   (Curry-Schoenberg,    *)
(*   integral 1), and since a q-th divided difference annihilates          *)
(*   polynomials of degree q-1,  M_tau(t) = (-1)^q q [tau]_v (t-v)_+^(q-1).*)
(*   Hence (s * M_tau)(x) = (-1)^q q! [tau]_v  I^q[s](x - v),              *)
(*   where I^q[s](y) = int_{-inf}^{y} s(u) (y-u)^(q-1)/(q-1)! du is the    *)
(*   q-fold antiderivative of s vanishing to the left of its support.      *)
(* I^q[s] is again a spline: one integration maps coefficients c of order  *)
(* n on knots T to  d_i = sum_{j<=i} c_j (T_{j+n+1} - T_j)/(n+1)  of order *)
(* n+1 on the same knots (valid where the knot vector has been padded far  *)
(* enough to the right; the padding carries zero coefficients of s).       *)
(* Values of the padded splines are computed with the triangular           *)
(* recurrence EvalAlgo!Bsplvb (model-checked against the Cox-de Boor       *)
(* definition in MC_Eval; MC_Conv re-checks it here for the higher orders  *)
(* that occur).                                                            *)
(***************************************************************************)
EXTENDS EvalAlgo

RECURSIVE Fact(_)
Fact(k) == IF k <= 1 THEN 1 ELSE k * Fact(k - 1)

(* knot vector padded by pl unit steps on the left and pr on the right; coefficients padded with zeros *)
PadKnots(t, pl, pr) == [i \in 1 .. pl |-> t[1] - (pl + 1 - i)] \o t \o [i \in 1 .. pr |-> t[Len(t)] + i]
PadCoef(c, pl, pr) == [i \in 1 .. pl |-> Zero] \o c \o [i \in 1 .. pr |-> Zero]

(* one antiderivative step: coefficients of order n (length Len(T)-n-1) -> order n+1 (length Len(T)-n-2) *)
IntegrateCoef(d, T, n) ==
    LET w == [j \in 1 .. Len(d) |-> RMul(d[j], Norm(T[j + n + 1] - T[j], n + 1))]
        RECURSIVE Run(_, _)
        Run(i, acc) == IF i > Len(T) - n - 2 THEN <<>> ELSE LET a == RAdd(acc, w[i]) IN <<a>> \o Run(i + 1, a)
    IN  Run(1, Zero)
RECURSIVE IntegrateQ(_, _, _, _)
IntegrateQ(d, T, n, q) == IF q = 0 THEN d ELSE IntegrateQ(IntegrateCoef(d, T, n), T, n + 1, q - 1)

(* value of sum_i d_i B_{i,k}(y) on knots T at a point of the interior of T (far from both padded ends) *)
SplineValue(d, T, k, y) ==
    IF RLt(y, R(T[1])) THEN Zero
    ELSE LET left == (CHOOSE j \in 1 .. Len(T) - 1 : RLe(R(T[j]), y) /\ RLt(y, R(T[j + 1]))) - 1      \* 0-based interval index
             row == BsplvbSimple(T, y, left, k + 1)
         IN  RSumSeq([j \in 1 .. k + 1 |-> RMul(d[left - k + j], row[j])])

RECURSIVE DivDiff(_, _)
(* divided difference of the values f (sequence) at the abscissae v (sequence of rationals, distinct) *)
DivDiff(v, f) == IF Len(v) = 1 THEN f[1]
                 ELSE RDiv(RSub(DivDiff(Tail(v), Tail(f)), DivDiff(SubSeq(v, 1, Len(v) - 1), SubSeq(f, 1, Len(f) - 1))),
                           RSub(v[Len(v)], v[1]))

(* (s * M_tau)(x) for s = sum c_j B_{j,n} on integer knots t, tau a sequence of rationals, x rational *)
ConvValue(c, t, n, tau, x) ==
    LET q == Len(tau) - 1
        span == (tau[Len(tau)][1] \div tau[Len(tau)][2]) - (tau[1][1] \div tau[1][2]) + 2      \* integer bound on the kernel width
        pl == span + n + q + 3
        pr == span + n + q + 3
        T == PadKnots(t, pl, pr)
        d == IntegrateQ(PadCoef([i \in 1 .. Len(c) |-> R(c[i])], pl, pr), T, n, q)
        f == [i \in 1 .. q + 1 |-> SplineValue(d, T, n + q, RSub(x, tau[i]))]
        sgn == IF q % 2 = 0 THEN 1 ELSE -1
    IN  RMul(R(sgn * Fact(q)), DivDiff(tau, f))

(* metadata of the convolved dimension *)
RECURSIVE InsertSorted(_, _)
InsertSorted(s, r) == IF s = <<>> THEN <<r>> ELSE IF RLe(r, Head(s)) THEN <<r>> \o s ELSE <<Head(s)>> \o InsertSorted(Tail(s), r)
RECURSIVE SortRats(_)
SortRats(s) == IF s = <<>> THEN <<>> ELSE InsertSorted(SortRats(Tail(s)), Head(s))
ConvKnots(t, tau) == SortRats([k \in 1 .. Len(t) * Len(tau) |-> RAdd(R(t[((k - 1) \div Len(tau)) + 1]), tau[((k - 1) % Len(tau)) + 1])])
ConvOrder(n, tau) == n + Len(tau) - 1
=============================================================================
