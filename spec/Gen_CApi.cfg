SPECIFICATION Spec
CONSTANTS Handles = {1,2,3} Depth = 30 ValidFiles = {1,2} InvalidFiles = {11,13,15}
INVARIANTS TypeOK Emit
CHECK_DEADLOCK FALSE
