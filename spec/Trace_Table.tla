---------------------------- MODULE Trace_Table ----------------------------
(***************************************************************************)
(* Deviation-collecting trace validation for operations that rearrange a   *)
(* table (C15 permuteDimensions / splinetable_permute).  Every line is one *)
(* call on a real table with the projected table before and after:         *)
(*   {"op":"permute","perm":[..],"ok":bool,"pre":T,"post":T}               *)
(* The post-state must be Table!PermuteOp(pre, perm), field by field.      *)
(***************************************************************************)
EXTENDS Table, Json, IOUtils, TLC

TraceLog == ndJsonDeserialize(IOEnv.TRACE)
VARIABLES l, bad
Ev == TraceLog[l]

Norm1(T) == [ndim |-> T.ndim, order |-> T.order, knots |-> T.knots, naxes |-> T.naxes, strides |-> T.strides,
             extents |-> [d \in 1 .. Len(T.extents) |-> <<T.extents[d][1], T.extents[d][2]>>],
             periods |-> T.periods, coef |-> T.coef]
Fields == {"ndim", "order", "knots", "naxes", "strides", "extents", "periods", "coef"}
FieldOf(T, f) == CASE f = "ndim" -> <<T.ndim>> [] f = "order" -> T.order [] f = "knots" -> T.knots [] f = "naxes" -> T.naxes
                   [] f = "strides" -> T.strides [] f = "extents" -> T.extents [] f = "periods" -> T.periods [] OTHER -> T.coef

Deviations ==
    IF Ev.op # "permute" THEN {}
    ELSE LET pre == Norm1(Ev.pre)
             post == Norm1(Ev.post)
             want == PermuteOp(pre, Ev.perm)
         IN  (IF Ev.ok /\ ~want.ok THEN {"accepted-non-permutation"} ELSE {}) \cup
             (IF ~Ev.ok /\ want.ok THEN {"rejected-permutation"} ELSE {}) \cup
             (IF Ev.ok = want.ok THEN {f \in Fields : FieldOf(post, f) # FieldOf(want.table, f)} ELSE {}) \cup
             (IF ~Ev.ok /\ post # pre THEN {"changed-on-reject"} ELSE {})

Devs(S) == LET RECURSIVE F(_) F(T) == IF T = {} THEN <<>> ELSE LET x == CHOOSE y \in T : TRUE IN <<[line |-> l, kind |-> x, perm |-> Ev.perm, ndim |-> Ev.pre.ndim]>> \o F(T \ {x}) IN F(S)

TInit == l = 1 /\ bad = <<>>
TNext == l <= Len(TraceLog) /\ l' = l + 1 /\ bad' = bad \o Devs(Deviations)
TSpec == TInit /\ [][TNext]_<<l, bad>>
Report == l = Len(TraceLog) + 1 => PrintT(ToJson([deviations |-> bad, lines |-> Len(TraceLog)]))
TraceAccepted == TLCGet("stats").diameter - 1 = Len(TraceLog)
=============================================================================
