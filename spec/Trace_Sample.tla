---------------------------- MODULE Trace_Sample ----------------------------
(***************************************************************************)
(* Trace validation of splinetable::sample against module Sample.  The     *)
(* driver (harness/sample_driver.cpp) scripts the proposal distribution    *)
(* and the random number generator and logs every call the sampler makes   *)
(* to them, in order:                                                      *)
(*   {"e":"config", "nres", "burnin", "custom_transform", "pos":[{usable, dens:[n,d,sign], prop:[n,d]}..]}   (line 1) *)
(*   {"e":"start"}                       a new call of sample()            *)
(*   {"e":"S","p":id}                    distribution.sample() handed out position id *)
(*   {"e":"P","p":id}                    distribution(p) was evaluated     *)
(*   {"e":"U","u":[k,8]}                 the generator was asked for a uniform and returned k/8191 *)
(*   {"e":"end","results":[ids],"nT","xok","err"}                           *)
(* Every record must be the next action of Sample from the model's state;  *)
(* at "end" the model must be done with the same results.  The attributes  *)
(* of the positions were computed by the driver without calling sample().  *)
(***************************************************************************)
EXTENDS Sample, Json, IOUtils
TraceLog == ndJsonDeserialize(IOEnv.TRACE)
Cfg == TraceLog[1]
TPositions == 1 .. Len(Cfg.pos)
TUsable(p) == Cfg.pos[p].usable
TDens(p) == LET r == Norm(Cfg.pos[p].dens[1], Cfg.pos[p].dens[2]) IN <<r[1], r[2], Cfg.pos[p].dens[3]>>
TProp(p) == Norm(Cfg.pos[p].prop[1], Cfg.pos[p].prop[2])
TNResults == Cfg.nres
TBurnin == Cfg.burnin

VARIABLES l, bad, lost
tvars == <<svars, l, bad, lost>>
Ev == TraceLog[l]
Consume == l' = l + 1
Keep == UNCHANGED <<bad, lost>>

TInit == Init /\ l = 2 /\ bad = <<>> /\ lost = TRUE
TStart == l <= Len(TraceLog) /\ Ev.e = "start" /\ Consume /\ bad' = bad /\ lost' = FALSE
          /\ pc' = "draw0" /\ cur' = NoPos /\ cand' = NoPos /\ k' = 0 /\ j' = 0 /\ results' = <<>> /\ nS' = 0 /\ nP' = 0 /\ nU' = 0
TS == l <= Len(TraceLog) /\ ~lost /\ Ev.e = "S" /\ Consume /\ Keep /\ Ev.p \in TPositions /\ (Draw0(Ev.p) \/ Draw(Ev.p))
TP == l <= Len(TraceLog) /\ ~lost /\ Ev.e = "P" /\ Consume /\ Keep
      /\ \/ pc = "pdf0" /\ Ev.p = cur /\ Pdf0
         \/ pc = "pdf" /\ Ev.p = cand
            /\ IF OddsOf(cur, cand) = <<"fin", One>> /\ ~(l + 1 <= Len(TraceLog) /\ TraceLog[l + 1].e = "U") THEN PdfTie ELSE Pdf
TU == l <= Len(TraceLog) /\ ~lost /\ Ev.e = "U" /\ Consume /\ Keep
      /\ LET u == Norm(Ev.u[1], Ev.u[2]) IN Unif(u)
EndOK == pc = "done" /\ Ev.results = results /\ Ev.err = "" /\ Ev.xok /\ (Cfg.custom_transform => Ev.nT = nP)
TEnd == l <= Len(TraceLog) /\ ~lost /\ Ev.e = "end" /\ Consume /\ UNCHANGED svars /\ lost' = TRUE
        /\ bad' = IF EndOK THEN bad ELSE Append(bad, [line |-> l, kind |-> "wrong-end", e |-> Ev.e, pc |-> pc])
Explained == TS \/ TP \/ TU
TDeviate == l <= Len(TraceLog) /\ ~lost /\ Ev.e \notin {"start", "end"} /\ ~ENABLED Explained /\ Consume /\ UNCHANGED svars
            /\ lost' = TRUE /\ bad' = Append(bad, [line |-> l, kind |-> "unexplained-call", e |-> Ev.e, pc |-> pc])
TSkip == l <= Len(TraceLog) /\ lost /\ Ev.e # "start" /\ Consume /\ Keep /\ UNCHANGED svars
TNext == TStart \/ Explained \/ TEnd \/ TDeviate \/ TSkip
TSpec == TInit /\ [][TNext]_tvars

(* the design invariants on every state the real execution passed through *)
TInv == ~lost => TypeOK /\ ResultsUsable /\ StaysInSupport /\ nP <= nS /\ nU <= nP
Report == l = Len(TraceLog) + 1 => PrintT(ToJson([deviations |-> bad, lines |-> Len(TraceLog)]))
=============================================================================
