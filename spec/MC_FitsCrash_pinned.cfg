\* demonstration: the pinned writer does not check flush/close; TLC reports SuccessIsHonest violated
SPECIFICATION Spec
CONSTANTS Ops <- OpsDef Checked <- CheckedPinned
INVARIANTS SuccessIsHonest CrashReportsNothing
CHECK_DEADLOCK FALSE
