--------------------------- MODULE MC_FitsLayout ---------------------------
(* ReadF(WriteT(T)) = T (up to materialised periods/extents) for every table of the configuration, and the legacy *)
(* variants of the file read back as the same table with the documented defaults                                  *)
EXTENDS FitsLayout
CONSTANTS MaxDim
W(tag, i) == tag \o ToString(i)
Tables ==
    UNION {{[ndim |-> n, order |-> o,
             naxes |-> [d \in 1 .. n |-> o[d] + d],
             knots |-> [d \in 1 .. n |-> [j \in 1 .. 2 * o[d] + d + 1 |-> W("k" \o ToString(d) \o "_", j)]],
             coef |-> [f \in 1 .. ProdSeq([d \in 1 .. n |-> o[d] + d]) |-> W("c", f)],
             extents |-> IF e THEN [d \in 1 .. n |-> <<W("lo", d), W("hi", d)>>] ELSE <<>>,
             periods |-> IF p THEN [d \in 1 .. n |-> W("p", d)] ELSE <<>>,
             aux |-> SubSeq(<<<<"KEYA", "1">>, <<"ALONGERKEYNAME", "text">>, <<"ZKEY", "">>>>, 1, a)]
            : o \in [1 .. n -> {0, 2, 3}], e \in BOOLEAN, p \in BOOLEAN, a \in 0 .. 3}
           : n \in 1 .. MaxDim}
VARIABLE T
Init == T \in Tables
Next == UNCHANGED T
Spec == Init /\ [][Next]_T
F == WriteT(T)
RoundTrip == ReadF(F) = AfterRoundTrip(T) /\ Readable(F)
(* legacy variants *)
DropExtents == SelectSeq(F, LAMBDA h : h.name # "EXTENTS")
DropPeriods == [F EXCEPT ![1].cards = SelectSeq(F[1].cards, LAMBDA c : ~(Len(c[1]) >= 6 /\ SubSeq(c[1], 1, 6) = "PERIOD"))]
SwapExt == IF Len(F) >= 3 THEN <<F[1]>> \o Reverse(SubSeq(F, 2, Len(F))) ELSE F
SingleOrder == IF \A d \in 1 .. T.ndim : T.order[d] = T.order[1]
               THEN [F EXCEPT ![1].cards = <<<<"ORDER", ToString(T.order[1])>>>> \o SelectSeq(F[1].cards, LAMBDA c : ~(Len(c[1]) >= 5 /\ SubSeq(c[1], 1, 5) = "ORDER"))]
               ELSE F
Legacy ==
    /\ ReadF(DropExtents) = AfterRoundTrip([T EXCEPT !.extents = <<>>])
    /\ ReadF(DropPeriods) = AfterRoundTrip([T EXCEPT !.periods = <<>>])
    /\ ReadF(SwapExt) = AfterRoundTrip(T)
    /\ ReadF(SingleOrder) = AfterRoundTrip(T)
=============================================================================
