SPECIFICATION TSpec
CONSTANTS
  Orders = {0}
  ExtraLens = {0}
  Gaps = {0,1}
  RejectNaN = TRUE
  EmitJson = FALSE
  MarginElseIf = FALSE
INVARIANTS TraceC04 TraceC05
POSTCONDITION TraceAccepted
CHECK_DEADLOCK FALSE
