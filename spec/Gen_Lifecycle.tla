--------------------------- MODULE Gen_Lifecycle ---------------------------
(***************************************************************************)
(* Coarse state machine of table objects used to generate operation        *)
(* histories (tlc -simulate) and to model-check the intended design on the *)
(* coarse state (BFS): objects are "none" (not constructed), "E" (empty)   *)
(* or "P" (populated).  Each action is one public operation, possibly with *)
(* an injected fault; the history of operations is printed as JSON and     *)
(* executed on real objects by harness/life_driver.cpp, whose log is       *)
(* judged by Trace_Lifecycle with the contract of module Lifecycle.        *)
(***************************************************************************)
EXTENDS Integers, Sequences, TLC, Json
CONSTANTS Objs, Depth, ValidFiles, InvalidFiles, MaxFail

VARIABLES st, hist
vars == <<st, hist>>
Init == st = [o \in Objs |-> "none"] /\ hist = <<>>

Op(rec) == hist' = Append(hist, rec)
Fail == {-1} \cup 0 .. MaxFail          \* -1: no injected allocation failure; k: the k-th allocation of the call throws

Construct(o) == st[o] = "none" /\ st' = [st EXCEPT ![o] = "E"] /\ Op([op |-> "construct", o |-> o])
ConstructFrom(o, f, k) ==
    /\ st[o] = "none"
    /\ st' = [st EXCEPT ![o] = IF f \in ValidFiles /\ k = -1 THEN "P" ELSE "E?"]     \* "E?": constructor threw, object does not exist
    /\ Op([op |-> "constructfrom", o |-> o, file |-> f, armed |-> k])
Read(o, f, mem, k) ==
    /\ st[o] \in {"E", "P"}
    /\ st' = [st EXCEPT ![o] = IF st[o] = "P" THEN "P" ELSE IF f \in ValidFiles /\ k = -1 THEN "P" ELSE "E"]
    /\ Op([op |-> IF mem THEN "readmem" ELSE "read", o |-> o, file |-> f, armed |-> k])
Fit(o, good, k) ==
    /\ st[o] \in {"E", "P"}
    /\ st' = [st EXCEPT ![o] = IF good /\ k = -1 THEN "P" ELSE st[o]]
    /\ Op([op |-> "fit", o |-> o, good |-> good, armed |-> k])
Key(o, kk, k) == st[o] \in {"E", "P"} /\ UNCHANGED st /\ Op([op |-> "writekey", o |-> o, key |-> kk, armed |-> k])
RemKey(o, kk) == st[o] \in {"E", "P"} /\ UNCHANGED st /\ Op([op |-> "removekey", o |-> o, key |-> kk])
Convolve(o, k) == st[o] \in {"E", "P"} /\ UNCHANGED st /\ Op([op |-> "convolve", o |-> o, armed |-> k])
Permute(o, good) == st[o] \in {"E", "P"} /\ UNCHANGED st /\ Op([op |-> "permute", o |-> o, good |-> good])
Write(o, mem, k) == st[o] \in {"E", "P"} /\ UNCHANGED st /\ Op([op |-> IF mem THEN "writemem" ELSE "write", o |-> o, armed |-> k])
Compare(o, o2) == st[o] \in {"E", "P"} /\ st[o2] \in {"E", "P"} /\ UNCHANGED st /\ Op([op |-> "compare", o |-> o, o2 |-> o2])
MoveConstruct(o, src) ==
    /\ st[o] = "none" /\ st[src] \in {"E", "P"} /\ o # src
    /\ st' = [st EXCEPT ![o] = st[src], ![src] = "E"]
    /\ Op([op |-> "moveconstruct", o |-> o, src |-> src])
MoveAssign(o, src) ==
    /\ st[o] \in {"E", "P"} /\ st[src] \in {"E", "P"} /\ o # src
    /\ st' = [st EXCEPT ![o] = st[src], ![src] = st[o]]          \* implemented as a swap
    /\ Op([op |-> "moveassign", o |-> o, src |-> src])
(* the stacking constructor: object o is built from the tables s1, s2 (and s1 again when three = TRUE); the sources  *)
(* must be populated and of one shape, which the coarse state cannot tell: the outcome is "E?" unless known good  *)
Stack(o, s1, s2, three, so, k) ==
    /\ st[o] = "none" /\ st[s1] \in {"E", "P"} /\ st[s2] \in {"E", "P"} /\ o # s1 /\ o # s2
    /\ st' = [st EXCEPT ![o] = "E?"]
    /\ Op([op |-> "stack", o |-> o, s1 |-> s1, s2 |-> s2, three |-> three, so |-> so, armed |-> k])
Destroy(o) == st[o] \in {"E", "P"} /\ st' = [st EXCEPT ![o] = "none"] /\ Op([op |-> "destroy", o |-> o])
Forget(o) == st[o] = "E?" /\ st' = [st EXCEPT ![o] = "none"] /\ UNCHANGED hist

Next ==
    /\ Len(hist) < Depth
    /\ \E o \in Objs :
          \/ Construct(o) \/ Destroy(o) \/ Forget(o)
          \/ \E f \in ValidFiles \cup InvalidFiles, k \in Fail : ConstructFrom(o, f, k) \/ Read(o, f, TRUE, k) \/ Read(o, f, FALSE, k)
          \/ \E g \in BOOLEAN, k \in Fail : Fit(o, g, k)
          \/ \E kk \in 1 .. 3, k \in Fail : Key(o, kk, k)
          \/ \E kk \in 1 .. 3 : RemKey(o, kk)
          \/ \E k \in Fail : Convolve(o, k) \/ Write(o, TRUE, k) \/ Write(o, FALSE, k)
          \/ \E g \in BOOLEAN : Permute(o, g)
          \/ \E o2 \in Objs : Compare(o, o2) \/ MoveConstruct(o, o2) \/ MoveAssign(o, o2)
          \/ \E s1 \in Objs, s2 \in Objs, three \in BOOLEAN, so \in 0 .. 3, k \in Fail : Stack(o, s1, s2, three, so, k)
Spec == Init /\ [][Next]_vars

(* design-level invariants on the coarse state *)
TypeOK == \A o \in Objs : st[o] \in {"none", "E", "P", "E?"}
Emit == Len(hist) = Depth => PrintT(ToJson(hist))
=============================================================================
