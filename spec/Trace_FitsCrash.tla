-------------------------- MODULE Trace_FitsCrash --------------------------
EXTENDS MC_FitsCrash
TraceLog == ndJsonDeserialize(IOEnv.TRACE)
VARIABLES l, bad
Ev == TraceLog[l]
Devs(S) == LET RECURSIVE G(_) G(X) == IF X = {} THEN <<>> ELSE LET x == CHOOSE y \in X : TRUE IN <<[line |-> l, kind |-> x]>> \o G(X \ {x}) IN G(S)
TInit == l = 1 /\ bad = <<>> /\ Init
TNext == l <= Len(TraceLog) /\ l' = l + 1 /\ bad' = bad \o Devs(Judge(Ev)) /\ UNCHANGED vars
TSpec == TInit /\ [][TNext]_<<l, bad, vars>>
Report == l = Len(TraceLog) + 1 => PrintT(ToJson([deviations |-> bad, lines |-> Len(TraceLog)]))
TraceAccepted == TLCGet("stats").diameter - 1 = Len(TraceLog)
=============================================================================
