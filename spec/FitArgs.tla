------------------------------ MODULE FitArgs ------------------------------
(***************************************************************************)
(* The argument space of splinetable::fit / splinetable_glamfit (property  *)
(* C13) as classes per argument, the outcome each combination requires,    *)
(* and the contract applied to observed calls.                             *)
(*                                                                         *)
(* A combination is a record of classes:                                   *)
(*   ndim     1..3                                                         *)
(*   weights  "ok" | "short" | "long" | "empty"     number of weights      *)
(*   ncoord   "ok" | "less" | "more"                number of coordinate vectors *)
(*   coordlen "ok" | "short"                        a coordinate vector shorter than its index range *)
(*   index    "ok" | "atrange"                      a data index equal to its declared range *)
(*   norder   "ok" | "less" | "more"                number of orders       *)
(*   nknotv   "ok" | "less" | "more"                number of knot vectors *)
(*   knots    "ok" | "unsorted" | "toofew" | "few"  toofew: < order+2 knots; few: order+2 .. 2*order+1 *)
(*   nsmooth  "one" | "ndim" | "other" | "empty"    number of smoothing strengths (other: a count that is neither 1 nor ndim) *)
(*   npen     "one" | "ndim" | "other" | "empty"    number of penalty orders *)
(*   penorder "ok" | "above" | "huge"               penalty order order+1 .. order+3; 2^32-1 *)
(*   order    "ok" | "huge31" | "huge32" | "wrap"   spline order 2^31-1, 2^32-1, 2^31+3 (2*order+2 wraps to 0, 0, 8 in 32 bits) *)
(*   monodim  "none" | "valid" | "ndim" | "huge"                           *)
(*   smoothval "pos" | "zero" | "neg" | "neginf" | "nan"   value of the (first) smoothing strength; none of them is   *)
(*            inconsistent with the other arguments, but only a positive one has a defined meaning                    *)
(***************************************************************************)
EXTENDS Integers, Sequences, FiniteSets, TLC, Json

Classes == [weights |-> {"ok", "short", "long", "empty"}, ncoord |-> {"ok", "less", "more"}, coordlen |-> {"ok", "short"},
            index |-> {"ok", "atrange"}, norder |-> {"ok", "less", "more"}, nknotv |-> {"ok", "less", "more"},
            knots |-> {"ok", "unsorted", "toofew", "few"}, nsmooth |-> {"one", "ndim", "other", "empty"}, npen |-> {"one", "ndim", "other", "empty"},
            penorder |-> {"ok", "above", "huge"}, monodim |-> {"none", "valid", "ndim", "huge"}, order |-> {"ok", "huge31", "huge32", "wrap"},
            smoothval |-> {"pos", "zero", "neg", "neginf", "nan"}]
Args == DOMAIN Classes
Good == [weights |-> "ok", ncoord |-> "ok", coordlen |-> "ok", index |-> "ok", norder |-> "ok", nknotv |-> "ok", knots |-> "ok",
         nsmooth |-> "one", npen |-> "one", penorder |-> "ok", monodim |-> "none", order |-> "ok", smoothval |-> "pos"]
IsGood(a, v) == v \in (CASE a = "nsmooth" -> {"one", "ndim"} [] a = "npen" -> {"one", "ndim"} [] a = "monodim" -> {"none", "valid"} [] a = "smoothval" -> Classes.smoothval [] OTHER -> {"ok"})
BadArgs(c) == {a \in Args : ~IsGood(a, c[a])}

(* the outcomes a combination permits: "complete", "reject"; never anything else (crash, out-of-bounds, hang) *)
Allowed(c) ==
    LET bad == BadArgs(c) IN
    IF bad = {} THEN (IF c.smoothval \in {"pos", "zero"} THEN {"complete"} ELSE {"complete", "complete-unpenalised", "reject"})   \* a strength without a meaning: anything safe
    ELSE IF bad \subseteq {"penorder"} THEN {"reject", "complete-unpenalised"}        \* rejected, or treated as a vanishing penalty
    ELSE IF bad \subseteq {"knots", "penorder"} /\ c.knots \in {"few", "ok"} THEN {"reject", "complete", "complete-unpenalised"}
         \* order+2 .. 2*order+1 knots: a basis exists but nothing is fully supported - "too few" is a matter of reading: refuse, or complete safely
    ELSE {"reject"}

(* contract on an observed call e: [combo, outcome, unchanged, c_ret, pre] *)
Judge(e) ==
    (IF e.outcome \notin Allowed(e.combo) THEN
        {IF e.outcome \in {"complete", "complete-unpenalised"} THEN "inconsistent-arguments-accepted"
         ELSE IF e.outcome = "reject" THEN "valid-arguments-rejected" ELSE "unsafe"}
     ELSE {}) \cup
    (IF e.outcome = "reject" /\ ~e.unchanged THEN {"table-changed-by-rejected-fit"} ELSE {}) \cup
    (IF e.api = "c" /\ e.outcome \in {"reject", "complete", "complete-unpenalised"} /\ ((e.c_ret = 0) # (e.outcome # "reject")) THEN {"c-wrapper-status"} ELSE {})

(* ---------------------------------------------------------------- generator: all combinations with at most MaxBad bad classes *)
CONSTANTS MaxBad, Dims
VARIABLES combo, nd
Init == nd \in Dims /\ combo = Good
Next == \E a \in Args : \E v \in Classes[a] : combo' = [combo EXCEPT ![a] = v] /\ Cardinality(BadArgs(combo')) <= MaxBad /\ UNCHANGED nd
Spec == Init /\ [][Next]_<<combo, nd>>
Emit == PrintT(ToJson([ndim |-> nd, combo |-> combo, allowed |-> Allowed(combo)]))
AllowedNonEmpty == Allowed(combo) # {}
=============================================================================
