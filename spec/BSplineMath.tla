---------------------------- MODULE BSplineMath ----------------------------
(***************************************************************************)
(* The mathematical reference model: Cox-de Boor B-splines on integer      *)
(* knots, evaluated exactly at rational points.  Nothing in this module is *)
(* taken from the implementation; it is the definition the properties      *)
(* C01/C02/C14/C15/C17 refer to.                                           *)
(*                                                                         *)
(* Index convention: the mathematical knot index j runs from 0; the TLA+   *)
(* sequence t holds knot j at t[j+1].  A knot vector of nk knots and order *)
(* n carries nk-n-1 basis functions, index 0 .. nk-n-2.                    *)
(***************************************************************************)
EXTENDS Rat, FiniteSets

K(t, j) == R(t[j + 1])
NK(t) == Len(t)
NAxes(t, n) == Len(t) - n - 1

(* Order-0 indicator of interval j.  side "R": [t_j, t_j+1); "L": (t_j, t_j+1]. *)
B0(t, j, x, side) ==
    IF side = "R"
    THEN IF RLe(K(t, j), x) /\ RLt(x, K(t, j + 1)) THEN One ELSE Zero
    ELSE IF RLt(K(t, j), x) /\ RLe(x, K(t, j + 1)) THEN One ELSE Zero

(* Cox-de Boor recursion with the convention 0/0 = 0 *)
RECURSIVE B(_, _, _, _, _)
B(t, n, i, x, side) ==
    IF n = 0 THEN B0(t, i, x, side)
    ELSE LET b1 == B(t, n - 1, i, x, side)
             b2 == B(t, n - 1, i + 1, x, side)
             w1 == IF b1[1] = 0 THEN Zero
                   ELSE RMul(RDiv0(RSub(x, K(t, i)), RSub(K(t, i + n), K(t, i))), b1)
             w2 == IF b2[1] = 0 THEN Zero
                   ELSE RMul(RDiv0(RSub(K(t, i + n + 1), x), RSub(K(t, i + n + 1), K(t, i + 1))), b2)
         IN  RAdd(w1, w2)

(* m-th derivative of B_{i,n}; zero when m > n *)
RECURSIVE DB(_, _, _, _, _, _)
DB(t, n, i, x, m, side) ==
    IF m = 0 THEN B(t, n, i, x, side)
    ELSE IF n = 0 THEN Zero
    ELSE LET d1 == DB(t, n - 1, i, x, m - 1, side)
             d2 == DB(t, n - 1, i + 1, x, m - 1, side)
             a1 == IF d1[1] = 0 THEN Zero ELSE RDiv0(d1, RSub(K(t, i + n), K(t, i)))
             a2 == IF d2[1] = 0 THEN Zero ELSE RDiv0(d2, RSub(K(t, i + n + 1), K(t, i + 1)))
         IN  RMul(R(n), RSub(a1, a2))

(***************************************************************************)
(* Which one-sided piece the library must use at x (property C01): the     *)
(* right-continuous one below the upper end t[naxes] of the fully          *)
(* supported range, the left-continuous one from there upwards.            *)
(***************************************************************************)
Side(t, n, x) == IF RLt(x, K(t, NAxes(t, n))) THEN "R" ELSE "L"

InRange(t, x) == RLt(K(t, 0), x) /\ RLe(x, K(t, NK(t) - 1))

(***************************************************************************)
(* The center the lookup must return (property C04).                       *)
(***************************************************************************)
CenterDef(t, n, x) ==
    LET na == NAxes(t, n) IN
    IF RLt(x, K(t, n)) THEN n
    ELSE IF x = K(t, na) THEN
         \* the upper end of full support is evaluated from the left: it belongs to the last interval of positive length
         LET pos == {c \in n .. na - 1 : K(t, c) # K(t, c + 1)} IN
         IF pos = {} THEN n ELSE CHOOSE c \in pos : \A d \in pos : d <= c
    ELSE IF RLt(K(t, na), x) THEN na - 1
    ELSE CHOOSE c \in n .. na - 1 : RLe(K(t, c), x) /\ RLt(x, K(t, c + 1))

(* exact local basis row B_{c-n} .. B_c at x, and its m-th derivative *)
Row(t, n, c, x) == [k \in 1 .. n + 1 |-> B(t, n, c - n + k - 1, x, Side(t, n, x))]
DRow(t, n, c, x, m) == [k \in 1 .. n + 1 |-> DB(t, n, c - n + k - 1, x, m, Side(t, n, x))]

(* all basis functions, for the partition-of-unity check *)
FullRow(t, n, x) == [k \in 1 .. NAxes(t, n) |-> B(t, n, k - 1, x, Side(t, n, x))]

(* every basis function outside c-n..c vanishes at x: the local row is complete *)
LocalRowComplete(t, n, c, x) ==
    \A i \in 0 .. NAxes(t, n) - 1 : (i < c - n \/ i > c) => B(t, n, i, x, Side(t, n, x)) = Zero

FullySupported(t, n, x) == RLe(K(t, n), x) /\ RLe(x, K(t, NAxes(t, n)))

(* strictly increasing knots *)
Strict(t) == \A j \in 1 .. Len(t) - 1 : t[j] < t[j + 1]

(* knot vector from a gap sequence, first knot at 0 *)
RECURSIVE KnotsFromGaps(_, _)
KnotsFromGaps(g, start) ==
    IF g = <<>> THEN <<start>> ELSE <<start>> \o KnotsFromGaps(Tail(g), start + Head(g))

(* is the last fully supported interval degenerate (t[naxes-1] = t[naxes])? *)
DegenerateTop(t, n) == t[NAxes(t, n)] = t[NAxes(t, n) + 1]
=============================================================================
