------------------------------ MODULE GridAlgo ------------------------------
(***************************************************************************)
(* The algorithm of splinetable::grideval, transcribed: the coefficient    *)
(* tensor is held as a sparse n-d array (a set of <<index tuple, value>>   *)
(* with ranges) and contracted one dimension at a time with the transposed *)
(* basis matrix by slicemultiply (src/fitter/splineutil.c, "rho" of Eilers *)
(* and Currie):                                                            *)
(*   1. rotate so that dimension dim is the row index and flatten the      *)
(*      other indices into a column number - the fastest running index is  *)
(*      the dimension BEFORE dim (cyclically), the slowest the one AFTER;  *)
(*   2. multiply by the matrix from the left;                              *)
(*   3. unflatten the column number with the same cyclic order.            *)
(* MC_Grid checks that after all dimensions the array holds exactly the    *)
(* tensor-product values (Table!EvalTable with right-continuous basis      *)
(* functions, as bsplinebasis evaluates them) at every grid point, i.e.    *)
(* that the index arithmetic of steps 1 and 3 is a bijection consistent    *)
(* with the contraction.                                                   *)
(***************************************************************************)
EXTENDS Table

(* sparse n-d array: [ranges |-> Seq(Nat), ent |-> set of [i |-> index tuple (0-based), v |-> rational]] *)
FromTable(T) == [ranges |-> T.naxes,
                 ent |-> {[i |-> Unflatten(f - 1, T.naxes), v |-> R(T.coef[f])] : f \in {g \in 1 .. Len(T.coef) : T.coef[g] # 0}}]

(* cyclic order of the non-contracted dimensions as the C loops visit them: k = dim+nd-1 down to dim+1 (0-based dim) *)
ColOf(idx, ranges, dim) ==          \* dim 1-based here
    LET nd == Len(ranges)
        RECURSIVE Acc(_, _, _)
        Acc(k, stride, acc) == IF k <= dim - 1 THEN acc       \* k runs over 0-based positions dim-1+nd-1 .. dim  (exclusive of dim-1)
                               ELSE LET d == (k % nd) + 1 IN Acc(k - 1, stride * ranges[d], acc + stride * idx[d])
    IN  Acc(dim - 1 + nd - 1, 1, 0)
Unflat(col, row, ranges, dim) ==
    LET nd == Len(ranges)
        total == LET RECURSIVE P(_) P(k) == IF k <= dim - 1 THEN 1 ELSE ranges[(k % nd) + 1] * P(k - 1) IN P(dim - 1 + nd - 1)
        RECURSIVE Dec(_, _, _, _)
        Dec(k, stride, j, out) == IF k > dim - 1 + nd - 1 THEN out
                                  ELSE LET d == (k % nd) + 1  s2 == stride \div ranges[d]
                                       IN  Dec(k + 1, s2, j % s2, [out EXCEPT ![d] = j \div s2])
    IN  Dec(dim, total, col, [d \in 1 .. nd |-> IF d = dim THEN row ELSE 0])

(* M: matrix as sequence of rows, M[r][c], with Len(M) = ranges[dim]; result range along dim = number of columns *)
SliceMultiply(A, M, dim) ==
    LET ncolB == Len(M[1])
        cols == {ColOf(e.i, A.ranges, dim) : e \in A.ent}
        Val(c, col) == RSumSeq([r \in 1 .. Len(M) |->
                          LET hit == {e \in A.ent : e.i[dim] = r - 1 /\ ColOf(e.i, A.ranges, dim) = col}
                          IN  IF hit = {} THEN Zero ELSE RMul(M[r][c], (CHOOSE e \in hit : TRUE).v)])
        newranges == [A.ranges EXCEPT ![dim] = ncolB]
    IN  [ranges |-> newranges,
         ent |-> {e \in {[i |-> Unflat(col, c - 1, newranges, dim), v |-> Val(c, col)] : c \in 1 .. ncolB, col \in cols} : e.v # Zero}]

(* basis matrix as bsplinebasis builds it: row p = abscissa xs[p], column j = B_{j-1,n}(xs[p]), continuous from the right; *)
(* the algorithm multiplies by its transpose from the left, i.e. M[r][c] = basis function r-1 at abscissa c                *)
BasisT(t, n, xs) == [r \in 1 .. Len(t) - n - 1 |-> [c \in 1 .. Len(xs) |-> B(t, n, r - 1, xs[c], "R")]]

RECURSIVE Contract(_, _, _, _)
Contract(A, T, coords, d) == IF d > T.ndim THEN A
                             ELSE Contract(SliceMultiply(A, BasisT(T.knots[d], T.order[d], coords[d]), d), T, coords, d + 1)
GridEvalAlgo(T, coords) == Contract(FromTable(T), T, coords, 1)

(* dense value of a sparse array at an index tuple *)
At(A, idx) == LET hit == {e \in A.ent : e.i = idx} IN IF hit = {} THEN Zero ELSE (CHOOSE e \in hit : TRUE).v
NoDuplicates(A) == \A e1, e2 \in A.ent : e1.i = e2.i => e1 = e2
IndicesInRange(A) == \A e \in A.ent : \A d \in 1 .. Len(A.ranges) : e.i[d] >= 0 /\ e.i[d] < A.ranges[d]
=============================================================================
