SPECIFICATION Spec
CONSTANTS Thorough = FALSE MaxN = 2 FreeCoords = 1
INVARIANTS Inv
CHECK_DEADLOCK FALSE
