SPECIFICATION TSpec
CONSTANTS MaxBad = 2 Dims = {1}
INVARIANTS Report
POSTCONDITION TraceAccepted
CHECK_DEADLOCK FALSE
