SPECIFICATION Spec
CONSTANTS MaxDim = 4 CarryFromNext = TRUE
INVARIANTS Inv
CHECK_DEADLOCK FALSE
