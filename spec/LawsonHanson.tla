---------------------------- MODULE LawsonHanson ----------------------------
(***************************************************************************)
(* nnls_lawson_hanson (src/fitter/nnls.c) as a step machine in exact       *)
(* rational arithmetic: the active-set method of Lawson and Hanson with    *)
(* the details of this implementation (property C11) -                     *)
(*   * P and Z are ordered lists, scanned in order; the coordinate moved   *)
(*     to P is the first one with the largest negative gradient among Z,   *)
(*     where the coordinate freed last is skipped unless it is Z[0];       *)
(*   * the step length is the smallest positive ratio x/(x - p) over the   *)
(*     coordinates of P whose unconstrained value p is not positive; a     *)
(*     ratio of exactly zero is ignored, except that the coordinate freed  *)
(*     last then ends the scan with length 0 ("anti-cycling advice");      *)
(*   * a step of length 0 ends the whole run ("equilibrium"), and a scan   *)
(*     that finds no coordinate ends the process ("Math has failed").      *)
(* Both forms of the C function (normal equations given / least-squares    *)
(* form with a rectangular matrix) solve the same sub-problems: with       *)
(* N = A'A and r = A'y the restricted least-squares solution is the        *)
(* solution of N[P,P] p = r[P], so one machine on (N, r) describes both.   *)
(* tolerance = 0, min_iterations = 0, max_iterations = 0 (no limit).       *)
(* One action per phase: Free (steps 2-5) and Inner (one pass of 6-11).    *)
(***************************************************************************)
EXTENDS Nnls, Sequences

VARIABLES n, A, b,         \* the problem: minimise 1/2 x'Ax - b'x, x[i] >= 0 for i <= npos
          npos,            \* coordinates 1..npos are constrained, the others free
          P, Z,            \* passive and active coordinates, ordered lists
          x,
          lastFreed,       \* 0 = none
          pc,              \* "free", "inner", "done", "equilibrium", "math-failed"
          branch           \* what the last step did (for traces): "start", "freed", "accept", "clip"
pvars == <<n, A, b, npos>>
svars == <<P, Z, x, lastFreed, pc, branch>>

All == 1 .. n
SetOf(s) == {s[i] : i \in 1 .. Len(s)}
Remove(s, k) == SubSeq(s, 1, k - 1) \o SubSeq(s, k + 1, Len(s))
W(v) == [i \in All |-> RSub(b[i], RSumSeq([j \in All |-> RMul(A[i][j], v[j])]))]      \* negative gradient
Q(v) == RSub(RSumSeq([i \in All |-> RMul(v[i], RSumSeq([j \in All |-> RMul(A[i][j], v[j])]))]),
             RMul(R(2), RSumSeq([i \in All |-> RMul(b[i], v[i])])))

Start(nn, AA, bb, np) ==
    /\ n = nn /\ A = AA /\ b = bb /\ npos = np
    /\ Z = [i \in 1 .. np |-> i] /\ P = [i \in 1 .. nn - np |-> np + i]
    /\ x = [i \in 1 .. nn |-> Zero] /\ lastFreed = 0 /\ pc = "free" /\ branch = "start"

(* the index t (position in Z) the scan of steps 3b/4 ends with, for the gradient w *)
RECURSIVE Scan(_, _, _)
Scan(w, i, t) == IF i > Len(Z) THEN t
                 ELSE IF RLt(w[Z[t]], w[Z[i]]) /\ lastFreed # Z[i] THEN Scan(w, i + 1, i) ELSE Scan(w, i + 1, t)

(* Steps 2-5 with the choice t given (the trace specification passes the recorded one where the gradient has ties) *)
FreeWith(t) ==
    /\ pc = "free"
    /\ LET w == W(x) IN
       IF Len(Z) = 0 \/ RSign(w[Z[t]]) <= 0
       THEN pc' = "done" /\ UNCHANGED <<P, Z, x, lastFreed, branch>>
       ELSE /\ lastFreed' = Z[t] /\ P' = Append(P, Z[t]) /\ Z' = Remove(Z, t)
            /\ pc' = "inner" /\ branch' = "freed" /\ UNCHANGED x
    /\ UNCHANGED pvars
Free == FreeWith(IF Len(Z) = 0 THEN 1 ELSE Scan(W(x), 2, 1))

(* Steps 8-9: the scan over P for the step length; returns <<alpha, qmax>> (qmax = 0: nothing found) *)
RECURSIVE StepScan(_, _, _, _, _)
StepScan(p, S, i, alpha, qmax) ==
    IF i > Len(P) THEN <<alpha, qmax>>
    ELSE LET c == P[i] IN
         IF c \notin S THEN StepScan(p, S, i + 1, alpha, qmax)
         ELSE LET den == RSub(x[c], p[c])                       \* zero only when x = p = 0 (the ratio is then NaN: every comparison false)
                  q == IF den = Zero THEN Junk ELSE RDiv(x[c], den)
              IN  IF ~IsJunk(q) /\ RLt(q, alpha) /\ q # Zero THEN StepScan(p, S, i + 1, q, c)
                  ELSE IF lastFreed = c THEN <<Zero, c>>
                  ELSE StepScan(p, S, i + 1, alpha, qmax)

(* Step 11: coordinates of P (constrained ones) that are not positive go back to Z, in the order of P *)
RECURSIVE Back(_, _, _, _)
Back(xs, i, Pn, Zn) ==
    IF i > Len(P) THEN <<Pn, Zn>>
    ELSE LET c == P[i] IN
         IF c > npos \/ RSign(xs[c]) > 0 THEN Back(xs, i + 1, Append(Pn, c), Zn) ELSE Back(xs, i + 1, Pn, Append(Zn, c))

(* Ties.  Where a component of the sub-problem solution is exactly zero the floating-point value may have either sign:   *)
(* S, the set of constrained coordinates of P read as "not positive", lies between the strict and the non-strict reading. *)
NegP(p) == {c \in SetOf(P) : c <= npos /\ RSign(p[c]) < 0}
NonPosP(p) == {c \in SetOf(P) : c <= npos /\ RSign(p[c]) <= 0}
InnerWith(S) ==
    /\ pc = "inner"
    /\ LET p == SolveOn(A, b, n, SetOf(P)) IN
       /\ NegP(p) \subseteq S /\ S \subseteq NonPosP(p)
       /\ IF S = {}
          THEN /\ x' = p /\ pc' = "free" /\ branch' = "accept" /\ UNCHANGED <<P, Z, lastFreed>>
          ELSE LET sc == StepScan(p, S, 1, R(2), 0)  alpha == sc[1]  qmax == sc[2] IN
               IF qmax = 0 THEN pc' = "math-failed" /\ UNCHANGED <<P, Z, x, lastFreed, branch>>
               ELSE LET moved == [i \in All |-> IF i \in SetOf(P) THEN RAdd(x[i], RMul(alpha, RSub(p[i], x[i]))) ELSE x[i]]
                        xs == [moved EXCEPT ![qmax] = Zero]
                        bk == Back(xs, 1, <<>>, Z)
                    IN  /\ P' = bk[1] /\ Z' = bk[2]
                        /\ x' = [i \in All |-> IF i \in SetOf(bk[2]) THEN Zero ELSE xs[i]]
                        /\ pc' = IF alpha = Zero THEN "equilibrium" ELSE "inner"
                        /\ branch' = "clip" /\ UNCHANGED lastFreed
    /\ UNCHANGED pvars
(* the exact reading: a component that is exactly zero is "not positive", as in the C comparison p <= 0 *)
Inner == InnerWith(NonPosP(SolveOn(A, b, n, SetOf(P))))

Step == Free \/ Inner

(* ---------------------------------------------------------------- properties *)
Partition == SetOf(P) \cap SetOf(Z) = {} /\ SetOf(P) \cup SetOf(Z) = All /\ Len(P) + Len(Z) = n
Feasible == \A i \in 1 .. npos : RSign(x[i]) >= 0
ZeroOnZ == \A i \in SetOf(Z) : x[i] = Zero
(* the constrained minimiser when only the first npos coordinates are constrained *)
KKTp(v) == LET g == Grad(A, b, n, v) IN
           \A i \in All : IF i > npos THEN g[i] = Zero
                          ELSE RSign(v[i]) >= 0 /\ (RSign(v[i]) > 0 => g[i] = Zero) /\ (v[i] = Zero => RSign(g[i]) >= 0)
Optimal == pc = "done" => KKTp(x)
(* what the theory of the method promises in exact arithmetic: the coordinate just freed gets a positive value, so the   *)
(* zero-length step, the "equilibrium" exit and the "Math has failed" exit exist for rounding errors only              *)
NoEquilibriumExit == pc # "equilibrium"
MathNeverFails == pc # "math-failed"
=============================================================================
