------------------------------ MODULE Trace_LH ------------------------------
(***************************************************************************)
(* Trace validation of nnls_lawson_hanson: the per-phase log written by    *)
(* the hook in src/fitter/nnls.c (guard PHOTOSPLINE_VERIF) is replayed     *)
(* against the algorithm of module LawsonHanson.  Every record must be a   *)
(* step of the model from the model's current state: the same coordinate   *)
(* freed, the same ordered lists P and Z, the same coordinate limiting the *)
(* step, the same point (to 2^-15).  Where the exact arithmetic has a tie  *)
(* (equal gradients, a sub-problem component that is exactly zero) TLC     *)
(* picks the reading that explains the record.  Executions are             *)
(* concatenated; an execution whose next record cannot be explained is     *)
(* reported once (with the line) and skipped to its end.                   *)
(***************************************************************************)
EXTENDS LawsonHanson, Json, IOUtils, TLC
TraceLog == ndJsonDeserialize(IOEnv.TRACE)
VARIABLES l, bad, lost
tvars == <<pvars, svars, l, bad, lost>>
Ev == TraceLog[l]
AbsI(a) == IF a < 0 THEN -a ELSE a
XClose(v, q) == Len(q) = Len(v) /\ \A i \in 1 .. Len(v) : /\ AbsI(q[i]) <= 1000000000 \div v[i][2]
                                                          /\ AbsI(q[i] * v[i][2] - v[i][1] * 65536) <= 2 * v[i][2]
Consume == l' = l + 1
Keep == UNCHANGED <<bad, lost>>

TInit == l = 1 /\ bad = <<>> /\ lost = TRUE
         /\ n = 1 /\ A = <<<<One>>>> /\ b = <<Zero>> /\ npos = 1 /\ P = <<>> /\ Z = <<1>> /\ x = <<Zero>> /\ lastFreed = 0 /\ pc = "done" /\ branch = "none"
TStart == l <= Len(TraceLog) /\ Ev.e = "start" /\ Consume /\ bad' = bad /\ lost' = FALSE
          /\ n' = Ev.n /\ A' = [i \in 1 .. Ev.n |-> [j \in 1 .. Ev.n |-> R(Ev.A[i][j])]] /\ b' = [i \in 1 .. Ev.n |-> R(Ev.b[i])] /\ npos' = Ev.n
          /\ Z' = [i \in 1 .. Ev.n |-> i] /\ P' = <<>> /\ x' = [i \in 1 .. Ev.n |-> Zero] /\ lastFreed' = 0 /\ pc' = "free" /\ branch' = "start"
(* the coordinate freed: the one the scan ends with, or one with the same gradient (a tie the floats may break either way) *)
TFreed == l <= Len(TraceLog) /\ ~lost /\ Ev.e = "freed" /\ Consume /\ Keep
          /\ pc = "free" /\ Len(Z) > 0
          /\ LET w == W(x)  t0 == Scan(w, 2, 1) IN
             \E t \in 1 .. Len(Z) : Z[t] = Ev.i /\ w[Z[t]] = w[Z[t0]] /\ FreeWith(t)
          /\ pc' = "inner" /\ P' = Ev.P /\ Z' = Ev.Z
TAccept == l <= Len(TraceLog) /\ ~lost /\ Ev.e = "accept" /\ Consume /\ Keep
           /\ InnerWith({}) /\ XClose(x', Ev.x)
TClip == l <= Len(TraceLog) /\ ~lost /\ Ev.e = "clip" /\ Consume /\ Keep
         /\ pc = "inner"
         /\ LET p == SolveOn(A, b, n, SetOf(P)) IN
            \E S \in SUBSET NonPosP(p) : S # {} /\ InnerWith(S) /\ StepScan(p, S, 1, R(2), 0)[2] = Ev.i       \* the coordinate that limits the step
         /\ branch' = "clip" /\ P' = Ev.P /\ Z' = Ev.Z /\ XClose(x', Ev.x)
(* on return the model must be able to stop here: nothing left to free, or the zero-length step *)
TEnd == l <= Len(TraceLog) /\ ~lost /\ Ev.e = "end" /\ Consume /\ UNCHANGED <<pvars, svars>> /\ lost' = TRUE
        /\ LET canStop == \/ pc = "equilibrium"
                          \/ pc = "free" /\ (Len(Z) = 0 \/ RSign(W(x)[Z[Scan(W(x), 2, 1)]]) <= 0)
           IN  bad' = IF canStop /\ XClose(x, Ev.x) THEN bad
                      ELSE Append(bad, [line |-> l, kind |-> "wrong-end", e |-> Ev.e, pc |-> pc])
Explained == TFreed \/ TAccept \/ TClip
(* A sub-problem solution with a component that is exactly zero, or two coordinates with the same smallest ratio: which   *)
(* coordinate limits the step, which ones return to Z, and every later ratio then depend on rounding errors of the size  *)
(* of the machine precision.  The rest of such an execution is not judged step by step (its result is, by C11's check); *)
(* it is counted as "tie-skipped".                                                                                      *)
Ratio(c, p) == RDiv(x[c], RSub(x[c], p[c]))
AmbiguousInner ==
    pc = "inner" /\ LET p == SolveOn(A, b, n, SetOf(P))  S == {c \in NonPosP(p) : RSub(x[c], p[c]) # Zero} IN
        \/ \E c \in SetOf(P) : c <= npos /\ p[c] = Zero
        \/ \E c1, c2 \in S : c1 # c2 /\ Ratio(c1, p) = Ratio(c2, p) /\ \A c \in S : RLe(Ratio(c1, p), Ratio(c, p)) \/ Ratio(c, p) = Zero
TDeviate == l <= Len(TraceLog) /\ ~lost /\ Ev.e \notin {"start", "end"} /\ ~ENABLED Explained /\ Consume /\ UNCHANGED <<pvars, svars>>
            /\ lost' = TRUE /\ bad' = Append(bad, [line |-> l, kind |-> IF AmbiguousInner THEN "tie-skipped" ELSE "unexplained-step", e |-> Ev.e, pc |-> pc])
TSkip == l <= Len(TraceLog) /\ lost /\ Ev.e # "start" /\ Consume /\ Keep /\ UNCHANGED <<pvars, svars>>
TNext == TStart \/ Explained \/ TEnd \/ TDeviate \/ TSkip
TSpec == TInit /\ [][TNext]_tvars

TInv == (~lost /\ pc \in {"free", "inner", "done", "equilibrium"}) => Partition /\ Feasible /\ ZeroOnZ
Report == l = Len(TraceLog) + 1 => PrintT(ToJson([deviations |-> bad, lines |-> Len(TraceLog)]))
=============================================================================
