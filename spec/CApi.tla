-------------------------------- MODULE CApi --------------------------------
(***************************************************************************)
(* The C interface (src/cinter/splinetable.cpp) as a handle state machine  *)
(* and its contract (property C18).  A handle is "null" (data == NULL) or  *)
(* "live".  Every action is one C function; the generator part of this     *)
(* module produces call sequences (tlc -simulate / BFS), the Judge part     *)
(* decides every recorded call, for which the driver also performed the    *)
(* same operation on a C++ twin:                                           *)
(*   c_ret    what the C function returned (status, or -1 for void)        *)
(*   twin_ok  the C++ operation completed without throwing                 *)
(*   same     the values / bits / resulting tables agree with the twin      *)
(***************************************************************************)
EXTENDS Integers, Sequences, TLC, Json
CONSTANTS Handles, Depth, ValidFiles, InvalidFiles

VARIABLES hs, hist
vars == <<hs, hist>>
Init == hs = [h \in Handles |-> "null"] /\ hist = <<>>
Op(r) == hist' = Append(hist, r)
Stay == UNCHANGED hs

InitH(h) == hs[h] = "null" /\ hs' = [hs EXCEPT ![h] = "live-empty"] /\ Op([f |-> "init", h |-> h])
FreeH(h) == hs' = [hs EXCEPT ![h] = "null"] /\ Op([f |-> "free", h |-> h])
ReadH(h, file, mem) ==
    \* readsplinefitstable_mem on a null handle creates the table itself; it stays (empty) when the read fails
    /\ hs' = [hs EXCEPT ![h] = IF mem THEN (IF hs[h] \in {"live-empty", "null"} /\ file \in ValidFiles THEN "live"
                                            ELSE IF hs[h] = "null" THEN "live-empty" ELSE hs[h])
                                ELSE (IF file \in ValidFiles THEN "live" ELSE "null")]
    /\ Op([f |-> IF mem THEN "read_mem" ELSE "read", h |-> h, file |-> file])
OnLive(h, name, arg) == hs[h] = "live" /\ Stay /\ Op([f |-> name, h |-> h, arg |-> arg])
\* on an initialised handle that holds no table yet: writing must fail (and release what it took), keys can already be kept
OnEmpty(h, name, arg) == hs[h] = "live-empty" /\ Stay /\ Op([f |-> name, h |-> h, arg |-> arg])
\* fit requests: 0 disordered knots (refused), 1 consistent, 2 a monotonic dimension the data do not have (refused),
\* 3 consistent with dimension 0 monotonic
FitH(h, kind) == hs[h] \in {"live", "live-empty"} /\ hs' = [hs EXCEPT ![h] = IF kind \in {1, 3} THEN "live" ELSE hs[h]] /\ Op([f |-> "glamfit", h |-> h, arg |-> kind])

Next ==
    /\ Len(hist) < Depth
    /\ \E h \in Handles :
          \/ InitH(h) \/ FreeH(h)
          \/ \E file \in ValidFiles \cup InvalidFiles : ReadH(h, file, TRUE) \/ ReadH(h, file, FALSE)
          \/ \E a \in 0 .. 3 : OnLive(h, "write", a) \/ OnLive(h, "write_mem", a) \/ OnLive(h, "get_key", a) \/ OnLive(h, "read_key", a)
                                 \/ OnLive(h, "write_key", a) \/ OnLive(h, "accessors", a) \/ OnLive(h, "eval", a)
                                 \/ OnLive(h, "grideval", a) \/ OnLive(h, "permute", a) \/ OnLive(h, "convolve", a)
          \/ \E a \in 0 .. 3 : OnEmpty(h, "write", a) \/ OnEmpty(h, "write_mem", a) \/ OnEmpty(h, "write_key", a) \/ OnEmpty(h, "get_key", a) \/ OnEmpty(h, "read_key", a)
          \/ \E g \in 0 .. 3 : FitH(h, g)
Spec == Init /\ [][Next]_vars
TypeOK == \A h \in Handles : hs[h] \in {"null", "live-empty", "live"}
Emit == Len(hist) = Depth => PrintT(ToJson(hist))

(***************************************************************************)
(* The contract, evaluated on a recorded call e.                           *)
(***************************************************************************)
Judge(e) ==
    (IF e.f \in {"init", "read", "read_mem", "write", "write_mem", "read_key", "write_key", "glamfit", "grideval", "permute", "convolve"}
        /\ e.c_ret # -99 /\ ((e.c_ret = 0) # e.twin_ok) THEN {"status-differs-from-cxx"} ELSE {}) \cup
    (IF e.c_ret = -99 THEN {"exception-escaped-c-wrapper"} ELSE IF ~e.same THEN {"value-differs-from-cxx"} ELSE {})
=============================================================================
