SPECIFICATION Spec
CONSTANTS MaxDim = 3 MarginElseIf = FALSE
INVARIANTS Check
CHECK_DEADLOCK FALSE
