---------------------------- MODULE Gen_AuxStore ----------------------------
(* behaviour generator: AuxStore with a history of the operations, printed as JSON when a behaviour *)
(* reaches Depth operations (used with tlc -simulate).  Only the inputs (op, key, value) are used by *)
(* the driver; the outcomes are observed on the real object and validated by Trace_AuxStore.         *)
EXTENDS AuxStore, Json
CONSTANT Depth
VARIABLE hist
GInit == Init /\ hist = <<>>
GNext == Len(hist) < Depth /\ Next /\ hist' = Append(hist, last')
GSpec == GInit /\ [][GNext]_<<vars, hist>>
Emit == Len(hist) = Depth => PrintT(ToJson(hist))
=============================================================================
