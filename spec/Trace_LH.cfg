SPECIFICATION TSpec
INVARIANTS TInv Report
CHECK_DEADLOCK FALSE
