SPECIFICATION Spec
CONSTANTS
  Orders = {0,1,2,3,4,5}
  ExtraLens = {0,1,2,4,6}
  Denom = 4
  TwoMods = TRUE
  MaxDeriv = 6
  EmitJson = TRUE
  MarginElseIf = FALSE
INVARIANTS Check
CHECK_DEADLOCK FALSE
