------------------------------ MODULE MC_Nnls ------------------------------
(***************************************************************************)
(* Enumerates small integer symmetric positive-definite systems, checks on *)
(* each that exactly one active set satisfies KKT (the constrained optimum *)
(* is unique) and emits the system with its exact minimiser for the        *)
(* conformance driver (property C11).                                      *)
(***************************************************************************)
EXTENDS Nnls, Sequences, Json
CONSTANTS Thorough, EmitJson
Diag == IF Thorough THEN 1 .. 4 ELSE 1 .. 3
Off == IF Thorough THEN -2 .. 3 ELSE -2 .. 2
Rhs == IF Thorough THEN -2 .. 3 ELSE {-2, 0, 1, 3}
Sizes == 1 .. 3
VARIABLES n, A, b
(* a symmetric matrix from its diagonal d and strict upper triangle o (row-major) *)
MatOf(nn, d, o) == [i \in 1 .. nn |-> [j \in 1 .. nn |->
                      IF i = j THEN d[i]
                      ELSE LET lo == IF i < j THEN i ELSE j  hi == IF i < j THEN j ELSE i
                               idx == IF nn = 2 THEN 1 ELSE (IF lo = 1 THEN hi - 1 ELSE 3)
                           IN  o[idx]]]
RatM(M, nn) == [i \in 1 .. nn |-> [j \in 1 .. nn |-> R(M[i][j])]]
Init == n \in Sizes /\ A = <<>> /\ b = <<>>
PickA == A = <<>> /\ \E d \in [1 .. n -> Diag] : \E o \in [1 .. (n * (n - 1)) \div 2 -> Off] :
             /\ SPD(RatM(MatOf(n, d, o), n), n) /\ A' = MatOf(n, d, o) /\ UNCHANGED <<n, b>>
PickB == A # <<>> /\ b = <<>> /\ \E v \in [1 .. n -> Rhs] : b' = v /\ UNCHANGED <<n, A>>
Next == PickA \/ PickB
Spec == Init /\ [][Next]_<<n, A, b>>
RatJ(r) == <<r[1], r[2]>>
Check == b # <<>> =>
    LET AR == RatM(A, n)  bR == [i \in 1 .. n |-> R(b[i])] IN
    /\ Assert(HasUniqueMinimiser(AR, bR, n), <<"not unique", A, b>>)
    /\ EmitJson => PrintT(ToJson([n |-> n, A |-> A, b |-> b, x |-> [i \in 1 .. n |-> RatJ(Minimiser(AR, bR, n)[i])]]))
=============================================================================
