--------------------------- MODULE Trace_Centers ---------------------------
(***************************************************************************)
(* Trace validation for center lookup: every line of the ndjson log is one *)
(* call of searchcenters on the real library, projected to the lattice of  *)
(* module Centers ({n, t, x, ok, c}).  The post-conditions of Centers are  *)
(* evaluated on every recorded call.                                       *)
(***************************************************************************)
EXTENDS Centers, IOUtils

TraceLog == ndJsonDeserialize(IOEnv.TRACE)

VARIABLE l
TInit == l = 1 /\ n = 0 /\ t = <<0, 4>> /\ x = 0 /\ pc = "trace" /\ lo = 0 /\ hi = 0 /\ c = 0 /\ it = 0 /\ ok = FALSE
TNext == l <= Len(TraceLog) /\ l' = l + 1 /\ UNCHANGED vars
TSpec == TInit /\ [][TNext]_<<vars, l>>

Ev == TraceLog[l]
TraceC04 == l <= Len(TraceLog) => PostC04(Ev.n, Ev.t, Ev.x, Ev.ok, Ev.c)
(* C05 on the recorded call: a successful lookup, for any coordinate at all, returns a center whose *)
(* coefficient block lies inside the array                                                          *)
TraceC05 == l <= Len(TraceLog) => (Ev.ok => (Ev.c - Ev.n >= 0 /\ Ev.c <= Len(Ev.t) - Ev.n - 2))
TraceAccepted == TLCGet("stats").diameter - 1 = Len(TraceLog)
=============================================================================
