-------------------------- MODULE Trace_Lifecycle --------------------------
(* deviation-collecting trace validation: every recorded call of a real history is judged by Lifecycle!Judge *)
EXTENDS Lifecycle, Json, IOUtils
TraceLog == ndJsonDeserialize(IOEnv.TRACE)
VARIABLES l, bad
Ev == TraceLog[l]
NormAux(m) == [m EXCEPT !.aux = [i \in 1 .. Len(m.aux) |-> <<m.aux[i][1], m.aux[i][2]>>]]
NormEv(e) ==
    LET e1 == [e EXCEPT !.pre = NormAux(e.pre), !.post = NormAux(e.post)]
        e2 == IF "src_pre" \in DOMAIN e THEN [e1 EXCEPT !.src_pre = NormAux(e.src_pre), !.src_post = NormAux(e.src_post)] ELSE e1
        e3 == IF "want" \in DOMAIN e THEN [e2 EXCEPT !.want = NormAux(e.want)] ELSE e2
    IN  e3
Devs(S) == LET RECURSIVE F(_) F(T) == IF T = {} THEN <<>> ELSE LET x == CHOOSE y \in T : TRUE IN <<[line |-> l, kind |-> x, op |-> Ev.op, armed |-> Ev.armed, tag |-> Ev.tag]>> \o F(T \ {x}) IN F(S)
TInit == l = 1 /\ bad = <<>>
TNext == l <= Len(TraceLog) /\ l' = l + 1 /\ bad' = bad \o (IF Ev.op \in {"crash", "reset"} THEN <<>> ELSE Devs(Judge(NormEv(Ev))))
TSpec == TInit /\ [][TNext]_<<l, bad>>
Report == l = Len(TraceLog) + 1 => PrintT(ToJson([deviations |-> bad, lines |-> Len(TraceLog)]))
TraceAccepted == TLCGet("stats").diameter - 1 = Len(TraceLog)
=============================================================================
