------------------------------- MODULE Memory -------------------------------
(***************************************************************************)
(* The allocation behaviour of "load a table from a file, then convolve    *)
(* one dimension" and the size model of splinetable::estimateMemory        *)
(* (property C19), integers only.                                          *)
(*   m = [ndim, order, nknots, naxes, aux]   aux: sequence of <<klen,vlen>>*)
(* AllocTrace(m, cd, nk) is the sequence of +size / -size events the       *)
(* library issues to the table's allocator; Peak its running maximum;      *)
(* Estimate the value estimateMemory returns for the same file.            *)
(***************************************************************************)
EXTENDS Integers, Sequences, FiniteSets, TLC

RECURSIVE SumSeq(_)
SumSeq(s) == IF s = <<>> THEN 0 ELSE Head(s) + SumSeq(Tail(s))
RECURSIVE ProdS(_)
ProdS(s) == IF s = <<>> THEN 1 ELSE Head(s) * ProdS(Tail(s))
RECURSIVE Flat(_)
Flat(ss) == IF ss = <<>> THEN <<>> ELSE Head(ss) \o Flat(Tail(ss))

(* read_fits_core: blocks in the order they are requested *)
ReadSeq(m) ==
    <<Len(m.aux) * 8>> \o
    Flat([i \in 1 .. Len(m.aux) |-> <<16, m.aux[i][1] + 1, m.aux[i][2] + 1>>]) \o
    <<m.ndim * 4, m.ndim * 8, m.ndim * 8, m.ndim * 8, m.ndim * 8, 2 * m.ndim * 8, m.ndim * 8, m.ndim * 8, ProdS(m.naxes) * 4>> \o
    [d \in 1 .. m.ndim |-> (m.nknots[d] + 2 * m.order[d]) * 8]
    \* order, periods, knot pointers, nknots, extent pointers, extents, naxes, strides, coefficients, knot vectors

(* convolve(cd, nk kernel knots): release coefficients and all knot vectors, then allocate the new ones *)
ConvMeta(m, cd, nk) ==
    [m EXCEPT !.order = [m.order EXCEPT ![cd] = m.order[cd] + nk - 1],
              !.nknots = [m.nknots EXCEPT ![cd] = m.nknots[cd] * nk],
              !.naxes = [m.naxes EXCEPT ![cd] = m.nknots[cd] * nk - (m.order[cd] + nk - 1) - 1]]
ConvSeq(m, cd, nk) ==
    LET c == ConvMeta(m, cd, nk) IN
    <<-(ProdS(m.naxes) * 4)>> \o [d \in 1 .. m.ndim |-> -((m.nknots[d] + 2 * m.order[d]) * 8)] \o
    <<ProdS(c.naxes) * 4>> \o [d \in 1 .. m.ndim |-> (c.nknots[d] + 2 * c.order[d]) * 8]

AllocTrace(m, cd, nk) == ReadSeq(m) \o (IF nk >= 2 THEN ConvSeq(m, cd, nk) ELSE <<>>)

RECURSIVE PeakOf(_, _, _)
PeakOf(s, cur, best) == IF s = <<>> THEN best
                        ELSE LET c2 == cur + Head(s) IN PeakOf(Tail(s), c2, IF c2 > best THEN c2 ELSE best)
Peak(m, cd, nk) == PeakOf(AllocTrace(m, cd, nk), 0, 0)

(* estimateMemory(path, nk, cd): nk = 1 means no convolution.  ObjSize = sizeof(splinetable), FLEN_KEYWORD+FLEN_VALUE = 146 *)
ObjSize == 96
Estimate(m, cd, nk) ==
    LET c == ConvMeta(m, cd, nk)
        raw == ObjSize + SumSeq([d \in 1 .. m.ndim |-> (c.nknots[d] + 2 * c.order[d]) * 8])
               + m.ndim * 4 + m.ndim * 8 + m.ndim * 8 + (2 * m.ndim * 8 + m.ndim * 8) + m.ndim * 8
               + ProdS(c.naxes) * 4 + m.ndim * 8 + m.ndim * 8 + Len(m.aux) * 146
    IN  raw + (1024 - (raw % 1024)) + 1024

WellFormed(m) == \A d \in 1 .. m.ndim : m.naxes[d] = m.nknots[d] - m.order[d] - 1 /\ m.naxes[d] >= m.order[d] + 1
=============================================================================
