----------------------------- MODULE Trace_Fit -----------------------------
(* judges the observations of fit_driver (C09 "fit" events, C10 "mono" events) *)
EXTENDS Nnls, Json, IOUtils, Sequences
TraceLog == ndJsonDeserialize(IOEnv.TRACE)
VARIABLES l, bad
Ev == TraceLog[l]
Deviations ==
    CASE Ev.kind = "fit" -> IF ~Ev.completed THEN {"fit-failed-on-well-posed-problem"} ELSE IF ~Ev.within THEN {"not-the-minimiser"} ELSE {}
      [] Ev.kind = "mono" ->
            IF ~Ev.completed THEN {"mono-fit-failed"}
            ELSE (IF \E f \in 1 .. Len(Ev.ranks) : ~NonDecreasingSeq(Ev.ranks[f]) \/ \E i \in 1 .. Len(Ev.ranks[f]) : Ev.ranks[f][i] < 0
                  THEN {"coefficients-decrease-along-monodim"} ELSE {}) \cup
                 (IF Ev.inactive /\ ~Ev.same_as_unconstrained THEN {"inactive-constraint-changed-fit"} ELSE {}) \cup
                 (IF ~KKTClasses(Ev.a, Ev.g) THEN {"info-kkt-not-satisfied"} ELSE {})
      [] OTHER -> {}
Devs(S) == LET RECURSIVE G(_) G(X) == IF X = {} THEN <<>> ELSE LET x == CHOOSE y \in X : TRUE IN <<[line |-> l, kind |-> x]>> \o G(X \ {x}) IN G(S)
TInit == l = 1 /\ bad = <<>>
TNext == l <= Len(TraceLog) /\ l' = l + 1 /\ bad' = bad \o Devs(Deviations)
TSpec == TInit /\ [][TNext]_<<l, bad>>
Report == l = Len(TraceLog) + 1 => PrintT(ToJson([deviations |-> bad, lines |-> Len(TraceLog)]))
TraceAccepted == TLCGet("stats").diameter - 1 = Len(TraceLog)
=============================================================================
