SPECIFICATION Spec
CONSTANTS MaxCase = 2
INVARIANTS Emit
CHECK_DEADLOCK FALSE
