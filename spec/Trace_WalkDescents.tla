------------------------ MODULE Trace_WalkDescents ------------------------
(***************************************************************************)
(* Trace validation for the line-search hand-shake.  The log holds one     *)
(* line per pthread call of one or more executions of the real             *)
(* walk_descents (recorded by the shim, free-running or scheduled):        *)
(*   {"th": thread, "op": call, "st": [worker states]}   or   {"op":"reset"}*)
(* Each line must be the next action of that thread in WalkDescents, the   *)
(* call must be the one that action performs (OpOf), and where the worker  *)
(* states were recorded (the logging thread held the mutex) they must be   *)
(* the specification's.  All invariants of WalkDescents are evaluated on   *)
(* every state of every recorded execution.                                *)
(***************************************************************************)
EXTENDS WalkDescents, Json, IOUtils

TraceLog == ndJsonDeserialize(IOEnv.TRACE)
VARIABLE l

Decode(s) == IF s = 0 THEN "WAIT" ELSE IF s = 1 THEN "RUN" ELSE "TERM"
Ev == TraceLog[l]
HasSt(e) == "st" \in DOMAIN e

PcOf(th) == IF th = 0 THEN cpc ELSE wpc[th]

TReset ==
    /\ Ev.op = "reset"
    /\ mutex' = Free /\ state' = [w \in Workers |-> "WAIT"] /\ alpha' = [w \in Workers |-> -1]
    /\ result' = [w \in Workers |-> -1] /\ computing' = [w \in Workers |-> FALSE] /\ cvwait' = {}
    /\ spawned' = [w \in Workers |-> FALSE] /\ finished' = [w \in Workers |-> FALSE]
    /\ cpc' = "spawn" /\ k' = 1 /\ block' = 0 /\ success' = FALSE /\ chosen' = -1
    /\ wpc' = [w \in Workers |-> "w0"] /\ lastTh' = 0

TStep ==
    /\ Ev.op # "reset"
    /\ OpOf(PcOf(Ev.th)) = Ev.op
    /\ IF Ev.th = 0 THEN Coord ELSE Worker(Ev.th)
    /\ HasSt(Ev) => state' = [w \in Workers |-> Decode(Ev.st[w])]

TNext == l <= Len(TraceLog) /\ l' = l + 1 /\ (TReset \/ TStep)
TSpec == Init /\ l = 1 /\ [][TNext]_<<vars, l>>

TraceAccepted == TLCGet("stats").diameter - 1 = Len(TraceLog)
(* a finished execution (next line is a reset or the log ends) made the decision the specification demands *)
ResultOK == (l > 1 /\ (l > Len(TraceLog) \/ TraceLog[l].op = "reset") /\ TraceLog[l - 1].op # "reset") => (AllDone /\ success /\ chosen = Expected)
=============================================================================
