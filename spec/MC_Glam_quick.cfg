SPECIFICATION Spec
CONSTANTS MaxDim = 2 EmitJson = TRUE Lambdas = {0, 1, 1000000}
INVARIANTS Check EmitProblem
CHECK_DEADLOCK FALSE
