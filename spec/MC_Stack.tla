------------------------------ MODULE MC_Stack ------------------------------
(***************************************************************************)
(* Model checking of Stack!StackOf: the result is a well-formed table;     *)
(* with stackOrder 1 it interpolates the stacked tables at their           *)
(* coordinates (the value at (x, c_i) is T_i(x)); stacking copies of one   *)
(* table reproduces it for every coordinate of the fully supported range;  *)
(* tables that cannot be stacked are refused.  Every case is printed with  *)
(* the exact result and exact values for the conformance driver.           *)
(***************************************************************************)
EXTENDS Stack, TLC, Json
CONSTANTS MaxDim, MaxN

Base(n, v) ==       \* table of shape n (1 or 2 dimensions), coefficient variant v
    LET ord == [d \in 1 .. n |-> IF n = 1 THEN 2 ELSE d - 1]
        kn == [d \in 1 .. n |-> [j \in 1 .. 2 * ord[d] + 3 |-> (j - 1) + ((j - 1) * j) \div 6]]
        nax == [d \in 1 .. n |-> Len(kn[d]) - ord[d] - 1]
    IN  [ndim |-> n, order |-> ord, knots |-> kn, naxes |-> nax, strides |-> StridesOf(nax),
         extents |-> [d \in 1 .. n |-> <<kn[d][ord[d] + 1] + 1, kn[d][Len(kn[d]) - ord[d]] + 3>>], periods |-> [d \in 1 .. n |-> -1],
         coef |-> [f \in 1 .. ProdSeq(nax) |-> IF v = 0 THEN 1 ELSE (((f + v) * (3 + v)) % 7) - 3]]
Other == [Base(1, 1) EXCEPT !.order = <<1>>, !.naxes = <<5>>, !.coef = <<1, 2, 3, 4, 5>>]       \* a table of another shape

CoordSets == {<<0, 8>>, <<0, 16>>, <<3, 11>>, <<0, 10, 20>>, <<0, 5, 20>>, <<4, 10, 19>>, <<0, 24, 36, 48>>, <<0, 6>>, <<1, 2>>}

VARIABLES n, cs, so, kind
vars == <<n, cs, so, kind>>
Init == n \in 1 .. MaxDim /\ cs \in {c \in CoordSets : Len(c) <= MaxN} /\ so \in 0 .. 3 /\ kind \in {"distinct", "copies", "mismatch"}
Next == UNCHANGED vars
Spec == Init /\ [][Next]_vars

Tables == [i \in 1 .. Len(cs) |-> IF kind = "copies" THEN Base(n, 2) ELSE IF kind = "mismatch" /\ i = 2 THEN Other ELSE Base(n, i)]
(* evaluation points: lattice points of the first table's fully supported box (one per dimension choice) *)
XPoints == LET T == Base(n, 1) IN
           {[d \in 1 .. n |-> <<2 * T.knots[d][T.order[d] + 1] + 1, 2>>], [d \in 1 .. n |-> R(T.knots[d][T.order[d] + 2])]}
RatJ(r) == <<r[1], r[2]>>
Check ==
    IF kind = "mismatch" THEN Assert(~StackOp(Tables, cs, so).ok, "unstackable tables accepted")
    ELSE IF ~IntegerShift(cs, so) THEN TRUE
    ELSE LET r == StackOp(Tables, cs, so)  S == r.table  kn == S.knots[n + 1]
             zs == {R(kn[j]) : j \in (so + 1 .. Len(kn) - so) \ {1}} \cup {<<kn[j] + kn[j + 1], 2>> : j \in so + 1 .. Len(kn) - so - 1}
         IN  /\ Assert(r.ok, "stackable tables refused")
             /\ Assert(WellFormed(S), <<"not well-formed", n, cs, so>>)
             /\ (so = 1 => \A i \in 1 .. Len(cs) : \A x \in XPoints :
                    Assert(EvalTable(S, x \o <<R(cs[i])>>) = EvalTable(Tables[i], x), <<"order-1 stack does not interpolate", n, cs, i>>))
             /\ (kind = "copies" => \A z \in zs : \A x \in XPoints :
                    Assert(EvalTable(S, x \o <<z>>) = EvalTable(Tables[1], x), <<"stack of copies is not the table", n, cs, so, z>>))
             /\ PrintT(ToJson([tables |-> Tables, coords |-> cs, so |-> so, kind |-> kind, result |-> S,
                               values |-> LET P == {<<x, z>> : x \in XPoints, z \in zs}
                                              RECURSIVE Q(_) Q(U) == IF U = {} THEN <<>> ELSE LET p == CHOOSE q \in U : TRUE IN
                                                  <<[x |-> [d \in 1 .. n |-> RatJ(p[1][d])] \o <<RatJ(p[2])>>, v |-> RatJ(EvalTable(S, p[1] \o <<p[2]>>))]>> \o Q(U \ {p})
                                          IN Q(P)]))
=============================================================================
