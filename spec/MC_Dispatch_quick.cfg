SPECIFICATION Spec
CONSTANTS MaxDim = 9 EmitJson = TRUE
INVARIANTS Facts Emit
CHECK_DEADLOCK FALSE
