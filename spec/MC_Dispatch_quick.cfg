SPECIFICATION Spec
CONSTANTS MaxDim = 9 EmitJson = TRUE AllUpTo = 2
INVARIANTS Facts Emit
CHECK_DEADLOCK FALSE
