SPECIFICATION TSpec
CONSTANTS Positions <- TPositions NResults <- TNResults Burnin <- TBurnin
  Uniforms = {} Usable <- TUsable Dens <- TDens Prop <- TProp
INVARIANTS TInv Report
CHECK_DEADLOCK FALSE
