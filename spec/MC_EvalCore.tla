---------------------------- MODULE MC_EvalCore ----------------------------
(* every shape of 1..MaxDim dimensions with orders 0..2 and one or two spare coefficients per axis, every admissible center vector *)
EXTENDS EvalCore, TLC
CONSTANTS MaxDim
Primes == <<2, 3, 5, 7, 11, 13, 17, 19, 23, 29, 31, 37, 41, 43, 47, 53>>
vars == <<pvars, svars>>
Init == /\ nd \in 1 .. MaxDim /\ order = <<>> /\ naxes = <<>> /\ centers = <<>> /\ lb = <<>> /\ coef = <<>>
        /\ pos = 0 /\ dp = <<>> /\ tree = <<>> /\ chunk = 0 /\ result = 0 /\ reads = {} /\ pc = "shape"
PickShape == pc = "shape" /\ \E o \in [1 .. nd -> 0 .. 2], extra \in [1 .. nd -> 0 .. 1] :
                /\ order' = o /\ naxes' = [d \in 1 .. nd |-> o[d] + 1 + extra[d]]
                /\ pc' = "centers" /\ UNCHANGED <<nd, centers, lb, coef, pos, dp, tree, chunk, result, reads>>
PickCenters == pc = "centers" /\ \E c \in [1 .. nd -> 0 .. 3] :
                /\ \A d \in 1 .. nd : c[d] >= order[d] /\ c[d] <= naxes[d] - 1
                /\ centers' = c
                /\ lb' = [d \in 1 .. nd |-> [k \in 1 .. order[d] + 1 |-> Primes[3 * (d - 1) + k]]]        \* distinct primes: every product identifies its factors
                /\ coef' = [f \in 1 .. ProdI(naxes) |-> 2 * f + 1]
                /\ pc' = "begin" /\ UNCHANGED <<nd, order, naxes, pos, dp, tree, chunk, result, reads>>
Next == PickShape \/ PickCenters \/ Step
Spec == Init /\ [][Next]_vars
Running == pc \in {"chunk", "advance", "done"}
Inv == Running => ReadsOwned /\ OdometerInRange /\ Correct
=============================================================================
