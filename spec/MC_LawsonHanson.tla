-------------------------- MODULE MC_LawsonHanson --------------------------
(* all small integer SPD systems (the catalogue of MC_Nnls / MC_Block3) run through the algorithm of LawsonHanson *)
EXTENDS LawsonHanson, TLC
CONSTANTS Thorough, MaxN, FreeCoords          \* FreeCoords: how many trailing coordinates are unconstrained (npos = n - FreeCoords)
Diag == IF Thorough THEN 1 .. 4 ELSE 1 .. 3
Off == IF Thorough THEN -2 .. 3 ELSE -2 .. 2
Rhs == IF Thorough THEN -2 .. 3 ELSE {-2, 0, 1, 3}
MatOf(nn, d, o) == [i \in 1 .. nn |-> [j \in 1 .. nn |->
                      IF i = j THEN R(d[i])
                      ELSE LET lo == IF i < j THEN i ELSE j  hi == IF i < j THEN j ELSE i
                               idx == IF nn = 2 THEN 1 ELSE (IF lo = 1 THEN hi - 1 ELSE 3)
                           IN  R(o[idx])]]
VARIABLE q0                     \* objective when the last coordinate was freed
vars == <<pvars, svars, q0>>
Init == n \in (FreeCoords + 1) .. MaxN /\ A = <<>> /\ b = <<>> /\ npos = 0 /\ P = <<>> /\ Z = <<>> /\ x = <<>> /\ lastFreed = 0 /\ pc = "pickA"
        /\ branch = "none" /\ q0 = Zero
PickA == pc = "pickA" /\ \E d \in [1 .. n -> Diag] : \E o \in [1 .. (n * (n - 1)) \div 2 -> Off] :
            /\ SPD(MatOf(n, d, o), n) /\ A' = MatOf(n, d, o) /\ pc' = "pickB"
            /\ UNCHANGED <<n, b, npos, P, Z, x, lastFreed, branch, q0>>
PickB == pc = "pickB" /\ \E v \in [1 .. n -> Rhs] :
            /\ b' = [i \in 1 .. n |-> R(v[i])] /\ npos' = n - FreeCoords
            /\ Z' = [i \in 1 .. n - FreeCoords |-> i] /\ P' = [i \in 1 .. FreeCoords |-> n - FreeCoords + i]
            /\ x' = [i \in 1 .. n |-> Zero] /\ lastFreed' = 0 /\ pc' = "free" /\ branch' = "start" /\ UNCHANGED <<n, A, q0>>
Run == pc \in {"free", "inner"} /\ Step /\ q0' = IF pc = "free" THEN Q(x) ELSE q0
Next == PickA \/ PickB \/ Run
Spec == Init /\ [][Next]_vars
FairSpec == Spec /\ WF_vars(Next)

Running == pc \in {"free", "inner", "done", "equilibrium", "math-failed"}
Inv == Running => Partition /\ Feasible /\ ZeroOnZ /\ Optimal /\ NoEquilibriumExit /\ MathNeverFails
(* every accepted sub-problem solution lowers the objective strictly below its value when the coordinate was freed *)
Descent == [][(pc = "inner" /\ pc' = "free") => RLt(Q(x'), q0)]_vars
Terminates == <>(pc \in {"done", "equilibrium", "math-failed"})
=============================================================================
