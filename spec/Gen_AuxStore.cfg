SPECIFICATION GSpec
CONSTANTS
  Keys = {1,2,3,4,5,6,7,8,9,10,11,12,13,14,15,16,17,18}
  Vals = {1,2,3,4,5,6,7,8,9,10,11,12,13,14,15,16,17,18,19,20,21,22}
  MaxLen = 100
  Depth = 40
INVARIANTS NoDuplicateKeys OnlyStorable LookupIsLastWrite Emit
CHECK_DEADLOCK FALSE
