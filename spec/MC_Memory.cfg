SPECIFICATION Spec
CONSTANTS MaxDim = 3 Orders = {0,2,5} Extras = {0,3,40} AuxCounts = {0,1,50} MaxNK = 8
INVARIANTS Sufficient Sane
CHECK_DEADLOCK FALSE
