#!/bin/sh
# every kept seeded change against the check of its own property (4 at a time); prints one line per seed
# usage: lib/seed_matrix.sh [outfile]
OUT=${1:-/tmp/seed/matrix.txt}; mkdir -p /tmp/seed; : > $OUT
ls /verif/seeded | xargs -P 4 -I{} sh -c 'id={}; c=$(echo $id | cut -c1-3); /verif/lib/seedrun_wt.sh $id $c 2>/dev/null | grep SEEDRUN >> '$OUT
sort $OUT
echo "caught: $(grep -c "rc=1" $OUT) of $(ls /verif/seeded | wc -l)"
