#!/bin/sh
# every kept seeded change against the check of its own property (4 at a time); prints one line per seed.
# A seed whose directory holds a file `check` is run against the property named there instead (C06h: the change only shows
# when a write fails, which is C08's fault model, not C06's).
# usage: lib/seed_matrix.sh [outfile]
OUT=${1:-/tmp/seed/matrix.txt}; mkdir -p /tmp/seed; : > $OUT
ls /verif/seeded | xargs -P 4 -I{} sh -c 'id={}; c=$(echo $id | cut -c1-3); [ -f /verif/seeded/$id/check ] && c=$(cat /verif/seeded/$id/check); /verif/lib/seedrun_wt.sh $id $c 2>/dev/null | grep SEEDRUN >> '$OUT
sort $OUT
echo "caught: $(grep -c "rc=1" $OUT) of $(ls /verif/seeded | wc -l)"
