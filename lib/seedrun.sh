#!/bin/sh
# apply a seeded change to /repo, run the given checks (quick tier), undo it straight afterwards
# usage: seedrun.sh <patch.diff> <Cxx> [<Cyy> ...]
P=$1; shift
git -C /repo apply "$P" || { echo "patch does not apply"; exit 2; }
for c in "$@"; do
  /verif/bin/check $c --tier ${TIER:-quick} > /tmp/seedrun_$c.log 2>&1; rc=$?
  echo "SEEDRUN $(basename $(dirname $(dirname $P)))/$(basename $P) check=$c rc=$rc $(grep -c '^VIOLATION' /tmp/seedrun_$c.log) violation-lines"
  grep -m2 "violation:" /tmp/seedrun_$c.log | cut -c1-400
done
git -C /repo checkout -- .
git -C /repo status --short | grep -v _build
