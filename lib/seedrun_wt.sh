#!/bin/sh
# run checks against a seeded change in its own scratch worktree (leaves /repo untouched, so several can run at once)
# usage: seedrun_wt.sh <ID> <Cxx...>
#   the worktree /tmp/seed/<ID> with _seed/patch.diff is used when it exists (a sub-agent's fresh result);
#   otherwise a temporary worktree is made from /verif/seeded/<ID>/patch.diff and removed afterwards
ID=$1; shift; D=/tmp/seed/$ID; TEMP=0
if [ ! -d $D ]; then
  [ -f /verif/seeded/$ID/patch.diff ] || { echo "SEEDRUN $ID: no such seed"; exit 2; }
  D=/tmp/seed/wt_$ID; TEMP=1; mkdir -p /tmp/seed
  git -C /repo worktree add -q --detach $D HEAD || exit 2
  mkdir -p $D/_seed; cp /verif/seeded/$ID/patch.diff $D/_seed/patch.diff
fi
cd $D || exit 2
git checkout -q -- include src 2>/dev/null
git checkout -q --detach main || exit 2
git apply _seed/patch.diff || { echo "SEEDRUN $ID: patch does not apply to main"; [ $TEMP = 1 ] && git -C /repo worktree remove --force $D; exit 2; }
for c in "$@"; do
  VERIF_EVID=/tmp/seed/evid_$ID VERIF_REPLAYS=/tmp/seed/evid_$ID VERIF_REPO=$D /verif/bin/check $c --tier ${TIER:-quick} > /tmp/seed/run_${ID}_$c.log 2>&1; rc=$?
  echo "SEEDRUN $ID $c rc=$rc $(grep -c '^  violation' /tmp/seed/run_${ID}_$c.log) violations; $(grep -o '"class": "[^"]*"' /tmp/seed/run_${ID}_$c.log | sort | uniq -c | sort -rn | head -4 | tr '\n' ' ')"
done
git checkout -q -- include src
[ $TEMP = 1 ] && git -C /repo worktree remove --force $D
exit 0
