#!/usr/bin/env python3
"""writes /verif/MANIFEST.json from the table below (single source of truth for the interface)"""
import json, os
V = os.path.dirname(os.path.dirname(os.path.abspath(__file__)))
MC = "model_checking"
CHECKS = {
 "C01": dict(tech="TLA+ exact-rational reference model (BSplineMath) + algorithm transcription (EvalAlgo) model-checked by TLC; every TLC leaf state replayed into the real evaluation entry points",
             text="TLC proves, for every enumerated order/knot-vector/point, that the transcribed algorithms (margin shift, de Boor recurrence, re-indexing) equal the Cox-de Boor definition and depend on no padding knot; each state is then replayed against the library (1-D and composed 2..9-D tables, affine images, both precisions, all entry points) within a rounding bound derived from the exact terms. Exhaustive inside the enumerated families, sampled for N-D compositions.",
             note="trusts: long-double evaluation of exact rational rows in the driver; the rounding-bound argument of DESIGN 3.3; arbitrary (non-lattice) doubles reached only through exact affine images", ref="5/C01"),
 "C02": dict(tech="TLA+ exact-rational derivative model (DB, m-th derivative rows) model-checked against the transcribed bspline_deriv_nonzero / bspline_nonzero; TLC states replayed into bitmask, gradient and arbitrary-order derivative entry points",
             text="same generator as C01; derivative rows of order 1..n+1 are exact rationals from TLC; replay covers every derivative bitmask (<= 4-D), all gradient lanes (<= 7-D, refusal above), arbitrary derivative orders 0..n+1, with derivative scaling under affine maps",
             note="as C01; derivative orders >= 2 only on strictly increasing knots (property's own domain)", ref="5/C02"),
 "C04": dict(tech="TLA+ step machine of searchcenters (Centers.tla) model-checked exhaustively by TLC (safety + liveness); every finished state replayed on the real lookup paths; real random lookups validated by Trace_Centers",
             text="TLC explores every reachable state of the lookup machine for all gap patterns {repeated, distinct}, all lattice positions, +-inf, NaN: Accept, Range, Bracket, bounded iterations, no unsigned wrap, termination under fairness. All finished states are replayed on table/evaluator/C lookups under six strictly increasing lattice->double maps (incl. 2^+-300, denormal spacing, near DBL_MAX), 1-D and embedded in 3-D, with a termination watchdog; the call operator is checked against lookup+evaluate. Exhaustive within the tier's knot counts.",
             note="order relations only: doubles are reached through monotone images of the lattice; knot counts 2n+2..2n+3 (quick) / ..2n+5 (thorough)", ref="5/C04"),
 "C05": dict(tech="TLA+ index model (CoefOwned, KnotsOwned in Centers.tla over EvalAlgo's touched-index sets) model-checked by TLC; all finished states executed through every evaluation entry point under ASan+UBSan with assertions; random IEEE bit patterns validated by Trace_Centers",
             text="TLC proves on the model that every center the lookup can return (for any coordinate class incl. NaN/inf) keeps the coefficient block and all knot reads inside owned/padded memory; the same states, under six double maps, are executed through value, all bitmasks, gradient, arbitrary derivative, evaluator objects, call operators and C wrappers in a sanitized build (forked worker, crash attributed to the case).",
             note="out-of-bounds accesses are observed by AddressSanitizer, not proved absent; quick tier executes one third of the states (all NaN/inf states)", ref="5/C05"),
 "C12": dict(tech="TLA+ specification of the coordinator/worker hand-shake (WalkDescents.tla, one action per pthread call) model-checked by TLC (deadlock, liveness, NoStaleRead, NoRace, Deterministic); TLC transition cover replayed on the real walk_descents through a cooperative pthread shim; recorded executions validated by Trace_WalkDescents",
             text="TLC checks 10 (quick) / 15 (thorough) worker x alpha x outcome configurations with and without spurious wake-ups. The complete labelled state graph of small configurations is dumped, a path set covering every transition is computed and each path is forced onto the unmodified cholesky_solve.c by the shim (-include renaming of the pthread calls); worker-first / coordinator-first / round-robin / random / free-running schedules for 1..32 workers follow; every recorded event sequence must be a behaviour of the specification with all invariants, results must be bit-identical.",
             note="pthread primitives are trusted to behave as modelled; data races on memory the shim does not observe are left to the TSan runs (C10)", ref="5/C12"),
 "C16": dict(tech="TLA+ ordered-map specification (AuxStore.tla): exhaustive TLC BFS on a reduced alphabet, tlc -simulate behaviour generation on the full alphabet, replay on the real table, deviation-collecting trace validation (Trace_AuxStore) of every real call",
             text="operation histories of length 40 over 13 keys x 16 values (every acceptance class of FITS cards, exact-fit and one-too-long values per card kind, quotes, trailing blanks) interleaved with FITS round trips through memory and disk, through C++ and C entry points; every call's outcome and resulting store are judged by the specification.",
             note="the MustReject set is the minimum FITS cannot carry; stricter refusals are allowed; value identity is modulo trailing blanks", ref="5/C16"),
 "C03": dict(tech="TLA+ decision table of get_evaluator (Dispatch.tla) enumerated by TLC over dimension counts 1..9 x order patterns; every configuration evaluated through all paths in builds with and without PHOTOSPLINE_NO_EVAL_TEMPLATES; Trace_Dispatch requires identical bits",
             text="TLC enumerates every arm of the dispatch table (Fixed/CoreD/Known/Generic x dimension count) and emits one configuration per state; the driver evaluates at interior, margin, on-knot, top-of-support and random points through member functions, evaluator objects (float/double), call operators and C wrappers; the trace specification demands bit-identical values, bitmask derivatives, gradients (value lane = plain value), arbitrary derivatives and centers per group, and the two builds must agree bit for bit; the selected core is compared with the specification as drift.",
             note="bit identity is observed on this compiler/flag set (SSE, no FMA); 9-D order 4/5 tables only in the thorough tier", ref="5/C03"),
 "C06": dict(tech="TLA+ HDU-level model of the documented FITS layout (FitsLayout.tla: WriteT, ReadF, legacy variants) model-checked by TLC; bytes written by the library parsed by an independent codec and judged by Trace_Fits; codec-written files read by the library and judged by ReadF",
             text="TLC proves ReadF(WriteT(T)) = T and the legacy variants on the model. The library writes random tables (1..9-D, unequal axes, orders 0..5, -0/denormal/max/inf/NaN coefficients, extents, periods, aux keys; memory and disk); an independent FITS codec parses the bytes and Trace_Fits requires the file to be WriteT(T) bit for bit; the codec writes the layout and four legacy/reordered variants, the library reads them and must produce ReadF(F); library write->read must give ==, equal bits, strides, extents, aux and identical evaluation; the six shipped files must keep their projection digests.",
             note="cfitsio is the library's I/O layer and is trusted as a black box; the independent codec (harness/minifits.h) covers primary + IMAGE extensions only", ref="5/C06"),
 "C07": dict(tech="TLA+ mutation catalogue (Gen_FitsDamage.tla) enumerated by TLC; every damaged file materialised with the independent codec and read through all reader entry points in forked ASan children; outcomes judged by FitsLayout well-formedness in Trace_Fits",
             text="every single mutation (header cards, axes, BITPIX, NAXIS, HDU drop/swap/rename/duplicate/resize, NaN/inf/unsorted knots, truncation, byte flips, foreign files) on 1..3-D base files and a seeded sample of ordered pairs; each read by read_fits, read_fits_mem, readsplinefitstable(_mem); required: rejection leaving an empty, reusable object, or a table that is well-formed and survives lookup/evaluation/gradient/comparison/re-serialisation/destruction.",
             note="memory readers are only given whole-block buffers plus one recorded known finding (cfitsio reads past a truncated memory buffer); byte flips are seeded samples", ref="5/C07"),
 "C08": dict(tech="TLA+ protocol model of the writer over the recorded file-operation sequence (FitsCrash.tla) model-checked by TLC; crash prefixes replayed into files and single failing operations injected into real writer runs through an LD_PRELOAD stdio interposer; observations judged by Trace_FitsCrash",
             text="for 3 (quick) / 8 (thorough) catalogue tables from one block to several hundred: the real operation sequence is recorded; every operation boundary and byte prefixes of every write (all byte counts for the smallest table) are materialised and read back (reject or equal); every write/flush/close operation is made to fail with ENOSPC (EIO in thorough) in real runs of write_fits and writesplinefitstable, plus RLIMIT_FSIZE limits; success may be reported only if the file reads back equal.",
             note="fault classes are those of the property (data transfer and commit operations); a failing fseeko is not injected (cfitsio ignores its status); Python bindings not buildable here", cat="fault_enumeration", ref="5/C08"),
 "C13": dict(tech="TLA+ argument-class model of fit (FitArgs.tla): TLC enumerates all combinations with <= 1 (quick) / <= 2 (thorough) inconsistent classes and their permitted outcomes; each instantiated and executed in forked ASan children; Trace_FitArgs judges",
             text="12 arguments x their valid/invalid classes in 1..3 dimensions; every combination called on an empty table, on a populated table and through splinetable_glamfit; required: complete / reject as the specification permits, never a crash or sanitizer report, table unchanged after a rejection, non-zero C status exactly on rejection.",
             note="one concrete instance per class combination", ref="5/C13"),
 "C15": dict(tech="TLA+ definition of dimension permutation (Table.tla) model-checked against the exact tensor-product evaluation (MC_Permute); every permutation of 1..5-D real tables (sampled 6-D) logged before/after and judged field by field by Trace_Table",
             text="TLC: permuted table well-formed, inverse restores it, represented function unchanged at permuted points (exact rationals, <= 3-D), non-permutations refused. Real tables with pairwise different axis lengths, orders, extents, periods: every permutation and its inverse through C++ and C entry points, six malformed arguments per dimension count; order, knots, naxes, strides, extents, periods and the relocated coefficient array must equal Table!PermuteOp exactly; values compared numerically at permuted points.",
             note="coefficients are small integers so that relocation is checked exactly", ref="5/C15"),
 "C18": dict(tech="TLA+ handle state machine and contract of the C interface (CApi.tla): TLC BFS + simulated call sequences executed against a C++ twin per handle under ASan/LSan; Trace_CApi judges every call",
             text="24 directed sequences (every function x 4 argument classes on each valid file, failing reads, bad fits) and TLC-simulated sequences of 30 calls over 3 handles; per call: C status vs twin outcome, bit-identical values/tables, no exception through the C boundary; per sequence: LeakSanitizer after all handles are freed.",
             note="the twin mirrors readsplinefitstable's replace-on-read semantics", ref="5/C18"),
 "C19": dict(tech="TLA+ size model of load+convolve (Memory.tla: AllocTrace, Peak, Estimate) model-checked by TLC (Peak <= Estimate); real files measured with a byte-counting allocator and judged by Trace_Memory",
             text="TLC checks Peak <= Estimate for all small file shapes (<= 3-D, orders {0,2,5}, up to 50 aux keys, 1..8 kernel knots, every dimension). The driver loads real files (1..6-D, 0..50 aux keys of all lengths) with a counting allocator, with no convolution or 2..8 kernel knots in a random dimension; the measured peak must not exceed estimateMemory; the recorded allocation sequence and the formula are compared with the model as drift.",
             note="object size (sizeof(splinetable)) is taken from the build", ref="5/C19"),
 "C20": dict(tech="TLA+ life-cycle contract (Lifecycle.tla: Bytes, Judge) and coarse object machine (Gen_Lifecycle.tla: BFS + simulation) driving real splinetable<CountingAlloc> objects with injected allocation failures and failing reads; Trace_Lifecycle judges every call",
             text="single-fault sweeps (every position 0..21 of an injected allocation failure in read, constructor, read_mem, convolve, fit, write_key; six kinds of invalid file) and TLC-simulated histories of 25 operations over 3 objects; after every call: failed operation left the object unchanged or empty, populated tables never overwritten by read, moved-from empty, live bytes of the object's allocator ledger equal Bytes(state), no double free / wrong-size deallocation, nothing live after destruction; forked child per history under ASan+LSan.",
             note="allocation scheme is transcribed in Lifecycle!Bytes; one recorded known finding (cfitsio over-read on truncated memory buffers)", ref="5/C20"),
}
NOT_YET = {}
def main():
    props = [json.loads(l) for l in open(os.path.join(V, "properties.jsonl"))]
    checks = []
    for p in props:
        pid = p["id"]
        if pid in CHECKS:
            c = CHECKS[pid]
            checks.append({"property_id": pid, "quick_cmd": "bin/check %s --tier quick" % pid,
                           "thorough_cmd": "bin/check %s --tier thorough" % pid,
                           "evidence_file": "evidence/%s.json" % pid,
                           "replay_cmd_template": "bin/check %s --replay {path}" % pid,
                           "engine": "tlc+psdriver",
                           "level_claimed": {"category": c.get("cat", MC), "text": c["text"], "design_ref": "DESIGN.md section " + c["ref"]},
                           "level_note": c["note"], "technique": c["tech"]})
    na = [{"property_id": p["id"], "reason": NOT_YET.get(p["id"], "check not built yet in this session (work in progress, see DESIGN.md section 9 order of work)")}
          for p in props if p["id"] not in CHECKS]
    m = {"version": 1,
         "setup_cmd": "bin/setup",
         "hooks": {"guard": "PHOTOSPLINE_VERIF",
                   "enable": "drivers are compiled by lib/vlib.py from /repo's working tree with -DPHOTOSPLINE_VERIF (friend access struct photospline_verif_access in include/photospline/splinetable.h); no behaviour change",
                   "baseline_off_cmd": "cmake --build /repo/_build -- -k 0; ctest --test-dir /repo/_build -j8 --timeout 900",
                   "source_commits": ["3d7b56d"], "add_only": True},
         "engines": [{"name": "tlc+psdriver", "path": "bin/check", "serves_properties": sorted(CHECKS),
                      "kind_free_text": "TLA+ specifications under spec/ checked with TLC; behaviours/cases replayed into C++ conformance drivers under harness/ built from /repo; real executions validated by Trace_*.tla"}],
         "checks": checks, "not_applicable": na,
         "notes": "see DESIGN.md; known_findings.json lists open findings and fixed defects"}
    json.dump(m, open(os.path.join(V, "MANIFEST.json"), "w"), indent=1)
    print("wrote MANIFEST.json:", len(checks), "checks,", len(na), "not applicable")
if __name__ == "__main__":
    main()
