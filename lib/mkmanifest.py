#!/usr/bin/env python3
"""writes /verif/MANIFEST.json from the table below (single source of truth for the interface)"""
import json, os
V = os.path.dirname(os.path.dirname(os.path.abspath(__file__)))
MC = "model_checking"
CHECKS = {
 "C01": dict(tech="TLA+ exact-rational reference model (BSplineMath) + algorithm transcription (EvalAlgo) model-checked by TLC; every TLC leaf state replayed into the real evaluation entry points",
             text="TLC proves, for every enumerated order/knot-vector/point, that the transcribed algorithms (margin shift, de Boor recurrence, re-indexing) equal the Cox-de Boor definition and depend on no padding knot; each state is then replayed against the library (1-D and composed 2..9-D tables, affine images, both precisions, all entry points) within a rounding bound derived from the exact terms. Exhaustive inside the enumerated families, sampled for N-D compositions.",
             note="trusts: long-double evaluation of exact rational rows in the driver; the rounding-bound argument of DESIGN 3.3; arbitrary (non-lattice) doubles reached only through exact affine images", ref="5/C01"),
 "C02": dict(tech="TLA+ exact-rational derivative model (DB, m-th derivative rows) model-checked against the transcribed bspline_deriv_nonzero / bspline_nonzero; TLC states replayed into bitmask, gradient and arbitrary-order derivative entry points",
             text="same generator as C01; derivative rows of order 1..n+1 are exact rationals from TLC; replay covers every derivative bitmask (<= 4-D), all gradient lanes (<= 7-D, refusal above), arbitrary derivative orders 0..n+1, with derivative scaling under affine maps",
             note="as C01; derivative orders >= 2 only on strictly increasing knots (property's own domain)", ref="5/C02"),
 "C04": dict(tech="TLA+ step machine of searchcenters (Centers.tla) model-checked exhaustively by TLC (safety + liveness); every finished state replayed on the real lookup paths; real random lookups validated by Trace_Centers",
             text="TLC explores every reachable state of the lookup machine for all gap patterns {repeated, distinct}, all lattice positions, +-inf, NaN: Accept, Range, Bracket, bounded iterations, no unsigned wrap, termination under fairness. All finished states are replayed on table/evaluator/C lookups under six strictly increasing lattice->double maps (incl. 2^+-300, denormal spacing, near DBL_MAX), 1-D and embedded in 3-D, with a termination watchdog; the call operator is checked against lookup+evaluate. Exhaustive within the tier's knot counts.",
             note="order relations only: doubles are reached through monotone images of the lattice; knot counts 2n+2..2n+3 (quick) / ..2n+5 (thorough)", ref="5/C04"),
 "C05": dict(tech="TLA+ index model (CoefOwned, KnotsOwned in Centers.tla over EvalAlgo's touched-index sets) model-checked by TLC; all finished states executed through every evaluation entry point under ASan+UBSan with assertions; random IEEE bit patterns validated by Trace_Centers",
             text="TLC proves on the model that every center the lookup can return (for any coordinate class incl. NaN/inf) keeps the coefficient block and all knot reads inside owned/padded memory; the same states, under six double maps, are executed through value, all bitmasks, gradient, arbitrary derivative, evaluator objects, call operators and C wrappers in a sanitized build (forked worker, crash attributed to the case).",
             note="out-of-bounds accesses are observed by AddressSanitizer, not proved absent; quick tier executes one third of the states (all NaN/inf states)", ref="5/C05"),
 "C12": dict(tech="TLA+ specification of the coordinator/worker hand-shake (WalkDescents.tla, one action per pthread call) model-checked by TLC (deadlock, liveness, NoStaleRead, NoRace, Deterministic); TLC transition cover replayed on the real walk_descents through a cooperative pthread shim; recorded executions validated by Trace_WalkDescents",
             text="TLC checks 10 (quick) / 15 (thorough) worker x alpha x outcome configurations with and without spurious wake-ups. The complete labelled state graph of small configurations is dumped, a path set covering every transition is computed and each path is forced onto the unmodified cholesky_solve.c by the shim (-include renaming of the pthread calls); worker-first / coordinator-first / round-robin / random / free-running schedules for 1..32 workers follow; every recorded event sequence must be a behaviour of the specification with all invariants, results must be bit-identical.",
             note="pthread primitives are trusted to behave as modelled; data races on memory the shim does not observe are left to the TSan runs (C10)", ref="5/C12"),
 "C16": dict(tech="TLA+ ordered-map specification (AuxStore.tla): exhaustive TLC BFS on a reduced alphabet, tlc -simulate behaviour generation on the full alphabet, replay on the real table, deviation-collecting trace validation (Trace_AuxStore) of every real call",
             text="operation histories of length 40 over 13 keys x 16 values (every acceptance class of FITS cards, exact-fit and one-too-long values per card kind, quotes, trailing blanks) interleaved with FITS round trips through memory and disk, through C++ and C entry points; every call's outcome and resulting store are judged by the specification.",
             note="the MustReject set is the minimum FITS cannot carry; stricter refusals are allowed; value identity is modulo trailing blanks", ref="5/C16"),
}
NOT_YET = {}
def main():
    props = [json.loads(l) for l in open(os.path.join(V, "properties.jsonl"))]
    checks = []
    for p in props:
        pid = p["id"]
        if pid in CHECKS:
            c = CHECKS[pid]
            checks.append({"property_id": pid, "quick_cmd": "bin/check %s --tier quick" % pid,
                           "thorough_cmd": "bin/check %s --tier thorough" % pid,
                           "evidence_file": "evidence/%s.json" % pid,
                           "replay_cmd_template": "bin/check %s --replay {path}" % pid,
                           "engine": "tlc+psdriver",
                           "level_claimed": {"category": c.get("cat", MC), "text": c["text"], "design_ref": "DESIGN.md section " + c["ref"]},
                           "level_note": c["note"], "technique": c["tech"]})
    na = [{"property_id": p["id"], "reason": NOT_YET.get(p["id"], "check not built yet in this session (work in progress, see DESIGN.md section 9 order of work)")}
          for p in props if p["id"] not in CHECKS]
    m = {"version": 1,
         "setup_cmd": "bin/setup",
         "hooks": {"guard": "PHOTOSPLINE_VERIF",
                   "enable": "drivers are compiled by lib/vlib.py from /repo's working tree with -DPHOTOSPLINE_VERIF (friend access struct photospline_verif_access in include/photospline/splinetable.h); no behaviour change",
                   "baseline_off_cmd": "cmake --build /repo/_build -- -k 0; ctest --test-dir /repo/_build -j8 --timeout 900",
                   "source_commits": ["3d7b56d"], "add_only": True},
         "engines": [{"name": "tlc+psdriver", "path": "bin/check", "serves_properties": sorted(CHECKS),
                      "kind_free_text": "TLA+ specifications under spec/ checked with TLC; behaviours/cases replayed into C++ conformance drivers under harness/ built from /repo; real executions validated by Trace_*.tla"}],
         "checks": checks, "not_applicable": na,
         "notes": "see DESIGN.md; known_findings.json lists open findings and fixed defects"}
    json.dump(m, open(os.path.join(V, "MANIFEST.json"), "w"), indent=1)
    print("wrote MANIFEST.json:", len(checks), "checks,", len(na), "not applicable")
if __name__ == "__main__":
    main()
