#!/bin/sh
# confirm a sub-agent's seeded change in its scratch worktree: tests pass with it, demo fails with it and passes without
# usage: confirm_seed.sh <ID> [dir]
ID=$1; D=${2:-/tmp/seed/$ID}; cd $D || exit 2
git checkout -q -- . 2>/dev/null
git apply --check _seed/patch.diff || { echo "CONFIRM $ID: patch does not apply"; exit 1; }
sh _seed/build.sh > _seed/confirm_without.log 2>&1; R0=$?
git apply _seed/patch.diff
sh _seed/build.sh > _seed/confirm_with.log 2>&1; R1=$?
if [ ! -d _build ]; then cmake -G Ninja -B _build -DCMAKE_BUILD_TYPE=RelWithDebInfo . > /dev/null 2>&1; fi
cmake --build _build -- -k 0 > _seed/confirm_build.log 2>&1
ctest --test-dir _build -j4 --timeout 900 > _seed/confirm_ctest.log 2>&1; RT=$?
git apply -R _seed/patch.diff
echo "CONFIRM $ID: demo_without=$R0 demo_with=$R1 ctest_with=$RT $(grep 'tests passed' _seed/confirm_ctest.log)"
