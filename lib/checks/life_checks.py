"""C20: object life cycle against the contract of spec/Lifecycle.tla.

TLC: exhaustive BFS of the coarse object machine (Gen_Lifecycle, depth 4, two objects) and tlc -simulate
histories of 25 operations over 3 objects with injected allocation failures and failing reads; the histories
are executed on real splinetable<CountingAlloc> objects (forked child per history, ASan+LSan); every call is
logged with projected object before/after, outcome, live bytes of the object's allocator ledger and allocator
misuse; Trace_Lifecycle judges every call with Lifecycle!Judge (deviation-collecting).
"""
import os, json, shutil
import vlib
from checks.aux_checks import PROBE


def run(pid, tier, seed, replay=None):
    ck = vlib.Check(pid, tier, seed)
    wd = vlib.workdir("c20")
    try:
        res = vlib.run_tlc("Gen_Lifecycle", "MC_Lifecycle.cfg", tag="lifemc", timeout=1500)
        if res.rc != 0 or res.violated:
            raise vlib.Infra("Gen_Lifecycle BFS failed: %s\n%s" % (res.violated, res.out[-1500:]))
        ck.add_tlc("Gen_Lifecycle/MC_Lifecycle.cfg (BFS)", res)
        hist = []
        res = vlib.run_tlc("Gen_Lifecycle", "Gen_Lifecycle.cfg", tag="lifegen", workers=4, simulate=(80 if tier == "quick" else 400),
                           depth=26, seed=seed, sink=hist.append, timeout=1500)
        if res.violated or not hist:
            raise vlib.Infra("Gen_Lifecycle simulation failed: %s\n%s" % (res.violated, res.out[-1500:]))
        ck.add_tlc("Gen_Lifecycle (simulate)", res)
        seen, uniq = set(), []
        for h in hist:
            k = json.dumps(h, sort_keys=True)
            if k not in seen:
                seen.add(k)
                uniq.append(h)
        hist = uniq[: (400 if tier == "quick" else 3000)]
        # systematic single-fault sweeps: every position k of the injected failure for each fallible operation
        sweeps = []
        for k in range(0, 22):
            for f in (1, 2, 3):
                sweeps.append([{"op": "construct", "o": 1}, {"op": "read", "o": 1, "file": f, "armed": k}, {"op": "read", "o": 1, "file": f, "armed": -1},
                               {"op": "convolve", "o": 1, "armed": k}, {"op": "writemem", "o": 1, "armed": -1}, {"op": "destroy", "o": 1}])
                sweeps.append([{"op": "constructfrom", "o": 1, "file": f, "armed": k}, {"op": "construct", "o": 1}, {"op": "readmem", "o": 1, "file": f, "armed": k},
                               {"op": "compare", "o": 1, "o2": 1}, {"op": "destroy", "o": 1}])
            sweeps.append([{"op": "construct", "o": 1}, {"op": "fit", "o": 1, "good": True, "armed": k}, {"op": "fit", "o": 1, "good": True, "armed": -1},
                           {"op": "writekey", "o": 1, "key": 1, "armed": k}, {"op": "writekey", "o": 1, "key": 2, "armed": k}, {"op": "write", "o": 1, "armed": -1}, {"op": "destroy", "o": 1}])
        for k in range(0, 4):      # overwrite / insert / remove of keys with the k-th allocation of the call failing
            for f in (1, 2, 3):
                sweeps.append([{"op": "construct", "o": 1}, {"op": "read", "o": 1, "file": f, "armed": -1}, {"op": "writekey", "o": 1, "key": 1, "armed": -1},
                               {"op": "writekey", "o": 1, "key": 2, "armed": -1}, {"op": "writekey", "o": 1, "key": 1, "armed": k}, {"op": "writekey", "o": 1, "key": 2, "armed": k},
                               {"op": "writemem", "o": 1, "armed": -1}, {"op": "removekey", "o": 1, "key": 1}, {"op": "writekey", "o": 1, "key": 3, "armed": k}, {"op": "destroy", "o": 1}])
        # the key store filled and emptied again, on an empty object and on loaded ones (removing the only / the last remaining key)
        for head in ([{"op": "construct", "o": 1}], [{"op": "construct", "o": 1}, {"op": "read", "o": 1, "file": 1, "armed": -1}],
                     [{"op": "constructfrom", "o": 1, "file": 2, "armed": -1}], [{"op": "construct", "o": 1}, {"op": "fit", "o": 1, "good": True, "armed": -1}]):
            sweeps.append(head + [{"op": "removekey", "o": 1, "key": 1}, {"op": "removekey", "o": 1, "key": 2}, {"op": "removekey", "o": 1, "key": 3},
                                  {"op": "writekey", "o": 1, "key": 1, "armed": -1}, {"op": "removekey", "o": 1, "key": 1},
                                  {"op": "writekey", "o": 1, "key": 2, "armed": -1}, {"op": "writekey", "o": 1, "key": 3, "armed": -1},
                                  {"op": "removekey", "o": 1, "key": 3}, {"op": "removekey", "o": 1, "key": 2}, {"op": "removekey", "o": 1, "key": 2},
                                  {"op": "writekey", "o": 1, "key": 1, "armed": -1}, {"op": "writemem", "o": 1, "armed": -1},
                                  {"op": "removekey", "o": 1, "key": 1}, {"op": "destroy", "o": 1}])
        # moves of tables that came from a file (those carry every optional array: extents, periods, keys)
        for fa, fb in ((1, 2), (2, 3), (3, 1), (1, 1)):
            sweeps.append([{"op": "construct", "o": 1}, {"op": "read", "o": 1, "file": fa, "armed": -1}, {"op": "moveconstruct", "o": 2, "src": 1},
                           {"op": "writemem", "o": 2, "armed": -1}, {"op": "compare", "o": 2, "o2": 2}, {"op": "destroy", "o": 2},
                           {"op": "read", "o": 1, "file": fb, "armed": -1}, {"op": "writemem", "o": 1, "armed": -1}, {"op": "destroy", "o": 1}])
            sweeps.append([{"op": "constructfrom", "o": 1, "file": fa, "armed": -1}, {"op": "constructfrom", "o": 2, "file": fb, "armed": -1},
                           {"op": "writekey", "o": 1, "key": 1, "armed": -1}, {"op": "moveassign", "o": 2, "src": 1}, {"op": "writemem", "o": 2, "armed": -1},
                           {"op": "writemem", "o": 1, "armed": -1}, {"op": "destroy", "o": 2}, {"op": "destroy", "o": 1}])
            sweeps.append([{"op": "constructfrom", "o": 1, "file": fa, "armed": -1}, {"op": "construct", "o": 2}, {"op": "moveassign", "o": 2, "src": 1},
                           {"op": "moveassign", "o": 1, "src": 2}, {"op": "writemem", "o": 1, "armed": -1}, {"op": "destroy", "o": 1}, {"op": "destroy", "o": 2}])
        # permutations (reversal and rotation alternate in the driver) of tables from every file, then everything else on the result
        for f in (1, 2, 3):
            sweeps.append([{"op": "construct", "o": 1}, {"op": "read", "o": 1, "file": f, "armed": -1}, {"op": "permute", "o": 1, "good": True}, {"op": "writemem", "o": 1, "armed": -1},
                           {"op": "permute", "o": 1, "good": True}, {"op": "permute", "o": 1, "good": True}, {"op": "compare", "o": 1, "o2": 1}, {"op": "convolve", "o": 1, "armed": -1},
                           {"op": "permute", "o": 1, "good": False}, {"op": "permute", "o": 1, "good": True}, {"op": "write", "o": 1, "armed": -1},
                           {"op": "read", "o": 1, "file": f, "armed": -1}, {"op": "destroy", "o": 1}])
        for f in (11, 12, 13, 14, 15, 16):
            sweeps.append([{"op": "construct", "o": 1}, {"op": "read", "o": 1, "file": f, "armed": -1}, {"op": "readmem", "o": 1, "file": f, "armed": -1},
                           {"op": "read", "o": 1, "file": 1, "armed": -1}, {"op": "read", "o": 1, "file": 2, "armed": -1}, {"op": "destroy", "o": 1},
                           {"op": "constructfrom", "o": 2, "file": f, "armed": -1}])
        # the stacking constructor: valid stacks of 2 and 3 tables with every position of an allocation failure, the stacked
        # object then used like any other; stacks of unequal or empty tables must be refused
        tail = [{"op": "compare", "o": 3, "o2": 3}, {"op": "writemem", "o": 3, "armed": -1}, {"op": "write", "o": 3, "armed": -1},
                {"op": "permute", "o": 3, "good": True}, {"op": "convolve", "o": 3, "armed": -1}, {"op": "writekey", "o": 3, "key": 2, "armed": -1},
                {"op": "moveconstruct", "o": 4, "src": 3}, {"op": "writemem", "o": 4, "armed": -1}, {"op": "destroy", "o": 4}, {"op": "destroy", "o": 3},
                {"op": "destroy", "o": 1}, {"op": "destroy", "o": 2}]
        for f in (1, 2, 3):
            for k in [-1] + list(range(0, 48 if tier == "quick" else 90, 1 if f == 2 or tier != "quick" else 3)):
                head = [{"op": "construct", "o": 1}, {"op": "read", "o": 1, "file": f, "armed": -1}, {"op": "constructfrom", "o": 2, "file": f, "armed": -1}]
                sweeps.append(head + [{"op": "stack", "o": 3, "s1": 1, "s2": 2, "three": k % 2 == 0, "so": 1 + (k % 3 == 0), "armed": k}] + tail)
        for fa, fb in ((1, 2), (2, 3), (3, 1)):
            sweeps.append([{"op": "construct", "o": 1}, {"op": "read", "o": 1, "file": fa, "armed": -1}, {"op": "constructfrom", "o": 2, "file": fb, "armed": -1},
                           {"op": "stack", "o": 3, "s1": 1, "s2": 2, "three": False, "so": 2, "armed": -1}] + tail)
        sweeps.append([{"op": "construct", "o": 1}, {"op": "construct", "o": 2}, {"op": "stack", "o": 3, "s1": 1, "s2": 2, "three": True, "so": 2, "armed": -1}] + tail)
        sweeps.append([{"op": "construct", "o": 1}, {"op": "read", "o": 1, "file": 1, "armed": -1}, {"op": "construct", "o": 2},
                       {"op": "stack", "o": 3, "s1": 1, "s2": 2, "three": False, "so": 2, "armed": -1}] + tail)
        hist = sweeps + hist
        hf = os.path.join(wd, "hist.ndjson")
        vlib.write_ndjson(hf, hist)
        ck.sample({"history_head": hist[len(sweeps)][:5]})
        ok, out = vlib.compile_probe(PROBE)
        exe = vlib.build_driver("life_driver", "asan", extra=[] if ok else ["-DNO_REMOVE_KEY"])
        log = os.path.join(wd, "life.ndjson")
        rc, so, err, _ = vlib.run_driver(exe, ["replay", hf, log, str(seed)], timeout=3000,
                                         env={"ASAN_OPTIONS": "detect_leaks=1:allocator_may_return_null=1"})
        if rc != 0:
            ck.violation({"class": "crash"}, {"what": "life driver died", "stderr": err[-3000:]})
            return ck.finish()
        rows = vlib.read_ndjson(log)
        for r in rows:
            if r["op"] == "crash":
                ck.violation({"class": "crash", "obs": r["obs"], "during": r["during"].split(" o=")[0],
                              "armed": "armed=-1" not in r["during"]},
                             {"what": "history ended abnormally (%s) during: %s" % (r["obs"], r["during"]), "detail": r["detail"][:1200], "tag": r["tag"]})
        rep = []
        res = vlib.run_tlc("Trace_Lifecycle", "Trace_Lifecycle.cfg", tag="trlife", workers=1, env={"TRACE": log}, timeout=2400,
                           sink=rep.append, xmx="8g")
        ck.add_tlc("Trace_Lifecycle (%d calls)" % len(rows), res)
        if res.rc != 0 or not rep:
            raise vlib.Infra("Trace_Lifecycle failed:\n" + res.out[-2500:])
        devs = rep[-1]["deviations"]
        # Lifecycle!Bytes writes down the library's allocation scheme.  If a freshly constructed / freshly read object already
        # disagrees with it, the scheme has changed (an extra block, a different padding) - then "ledger-mismatch" says nothing
        # about leaks and is reported as drift; leaks and abandoned storage are still decided by leak-at-destruction,
        # allocator-misuse and LeakSanitizer, which do not depend on the scheme.
        def fresh(ev):
            return ev["op"] in ("read", "readmem", "stack") and ev.get("ok") and ev["pre"]["ndim"] == 0 and not ev["pre"]["aux"] and ev.get("armed", -1) < 0
        scheme_changed = any(d["kind"] == "ledger-mismatch" and fresh(rows[d["line"] - 1]) for d in devs)
        ck.cov["allocation_scheme_matches_Lifecycle_Bytes"] = not scheme_changed
        if scheme_changed:
            nlm = sum(1 for d in devs if d["kind"] == "ledger-mismatch")
            ck.drift("the bytes held by a freshly read table differ from Lifecycle!Bytes: the allocation scheme changed; %d ledger-mismatch observations are not judged" % nlm)
            devs = [d for d in devs if d["kind"] != "ledger-mismatch"]
        # clauses of Lifecycle!Judge that belong to other properties (what an operation computes or which inputs it accepts:
        # C06, C07, C13, C14, C15) are reported as drift here; C20 is about the object staying valid and the memory balance
        other_property = {"empty-table-written", "bad-permutation-accepted", "permutation-refused", "bad-fit-accepted", "good-fit-failed",
                          "invalid-input-accepted", "valid-read-failed", "write-failed", "read-wrong-table", "convolve-wrong-shape",
                          "stack-wrong-shape", "bad-stack-accepted", "good-stack-failed"}
        seen_other = {}
        for d in devs:
            if d["kind"] in other_property:
                seen_other[d["kind"]] = seen_other.get(d["kind"], 0) + 1
        for k, n in sorted(seen_other.items()):
            ck.drift("%d calls with outcome '%s' (decided by the check of the property that owns that clause, not by C20)" % (n, k))
        devs = [d for d in devs if d["kind"] not in other_property]
        for d in devs:
            ev = rows[d["line"] - 1]
            ck.violation({"class": d["kind"], "op": d["op"], "armed": d["armed"] >= 0, "pre_populated": ev["pre"]["ndim"] > 0, "kind": ev.get("kind"), "file": ev.get("file")} if d["op"] != "stack" else {"class": d["kind"], "op": "stack", "armed": d["armed"] >= 0, "kind": ev.get("kind")},
                         {"what": "call violates the life-cycle contract: " + d["kind"], "event": {k: ev[k] for k in ev if k not in ("want",)}, "line": d["line"]})
        ck.cov["traces_validated_against_impl"] = len(hist)
        ck.cov["evaluations"] = len(rows)
        ck.cov["distinct_nontrivial"] = len(hist)
        ck.cov["rule"] = ("operation histories: single-fault sweeps (every position 0..21 of an injected allocation failure in read / "
                          "constructor / read_mem / convolve / fit / write_key; six kinds of invalid file) and TLC-simulated histories of 25 "
                          "operations over 3 objects; distinct = distinct histories")
        return ck.finish(exhaustive=False)
    finally:
        if not os.environ.get("VERIF_KEEP"):
            shutil.rmtree(wd, ignore_errors=True)
