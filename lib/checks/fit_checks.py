"""C09 / C10: fitting against the exact normal equations.

spec/Glam.tla gives, in exact rationals, the basis matrix (Cox-de Boor definition) and the derivative-coefficient /
penalty matrices of every catalogue axis; MC_Glam model-checks them (derivative identity against BSplineMath!DB,
polynomial null spaces, symmetry) and enumerates fitting problems (tuples of axes, penalty orders, smoothing strengths,
data and weight patterns).  The driver assembles the exact normal equations from those ingredients, solves them in long
double and compares with splinetable::fit / splinetable_glamfit (plain, shuffled, zero-weight extras, C API) within
(32*2^-24 + 64*cond*2^-53)*|c*|.  C10: the same problems with every choice of monotonic dimension; Trace_Fit checks that
coefficient ranks are non-decreasing along it and that an inactive constraint leaves the unconstrained fit unchanged."""
import os, json, shutil, random
import vlib


def _gen(ck, tier, wd, seed, nprob):
    rows = []
    res = vlib.run_tlc("MC_Glam", "MC_Glam_%s.cfg" % tier, tag="mcglam", sink=rows.append, timeout=3000)
    if res.rc != 0 or res.violated or not rows:
        raise vlib.Infra("MC_Glam failed: %s\n%s" % (res.violated, res.out[-2000:]))
    ck.add_tlc("MC_Glam", res)
    if ck.pid == "C09":
        # the array arithmetic that assembles the normal equations (box, rho = slicemultiply, axis doubling, flattening) as a
        # transcription, checked against B'WB and B'Wz of the Kronecker-product definition
        r2 = vlib.run_tlc("MC_GlamAlgo", "MC_GlamAlgo_quick.cfg" if tier == "quick" else "MC_GlamAlgo.cfg", tag="mcglamalgo", timeout=1500)
        if r2.rc != 0 or r2.violated:
            raise vlib.Infra("MC_GlamAlgo did not model-check cleanly: %s\n%s" % (r2.violated, r2.out[-2000:]))
        ck.add_tlc("MC_GlamAlgo (GLAM assembly, %s)" % ("1..2-D" if tier == "quick" else "1..3-D"), r2)
    axes = [r for r in rows if r["kind"] == "axis"]
    probs = [r for r in rows if r["kind"] == "problem"]
    rnd = random.Random(seed)
    one = [p for p in probs if len(p["p"]["axes"]) == 1]
    two = [p for p in probs if len(p["p"]["axes"]) == 2]
    three = [p for p in probs if len(p["p"]["axes"]) == 3]
    four = [p for p in probs if len(p["p"]["axes"]) == 4]
    for l in (one, two, three, four):
        l.sort(key=lambda p: json.dumps(p, sort_keys=True))
        rnd.shuffle(l)
    pick = one[: nprob * 2 // 5] + two[: nprob * 2 // 5] + three[: nprob // 5] + four[: nprob // 25]
    af, pf = os.path.join(wd, "axes.ndjson"), os.path.join(wd, "problems.ndjson")
    vlib.write_ndjson(af, axes)
    vlib.write_ndjson(pf, pick)
    ck.sample({"axis": {k: axes[1][k] for k in ("id", "n", "t")}, "B_row1": axes[1]["B"][0]})
    ck.sample(pick[0])
    return af, pf, len(pick), len(probs)


def _judge(ck, log, rows, label, info_kinds=()):
    rep = []
    r2 = vlib.run_tlc("Trace_Fit", "Trace_Fit.cfg", tag="trfit", workers=1, env={"TRACE": log}, sink=rep.append, timeout=2400)
    ck.add_tlc("Trace_Fit (%s, %d events)" % (label, len(rows)), r2)
    if r2.rc != 0 or not rep:
        raise vlib.Infra("Trace_Fit failed:\n" + r2.out[-2000:])
    info = {}
    for d in rep[-1]["deviations"]:
        ev = rows[d["line"] - 1]
        if d["kind"].startswith("info-"):
            info[d["kind"]] = info.get(d["kind"], 0) + 1
            continue
        pr = ev.get("problem", {})
        other = None
        if ev.get("monodim") is not None and pr.get("lam"):
            other = any(l > 0 for i, l in enumerate(pr["lam"]) if i != ev["monodim"])
        ck.violation({"class": d["kind"], "ndim": ev.get("ndim"), "variant": ev.get("variant"), "monodim": ev.get("monodim"), "other_dim_smoothing": other,
                      "orders_axes": pr.get("axes"), "lam": pr.get("lam"), "pens": pr.get("pens")},
                     {"what": d["kind"], "event": {k: ev[k] for k in ev if k not in ("ranks", "a", "g")}})
    return info


def run_c09(pid, tier, seed, replay=None):
    ck = vlib.Check(pid, tier, seed)
    wd = vlib.workdir("c09")
    try:
        af, pf, n, total = _gen(ck, tier, wd, seed, 2500 if tier == "quick" else 20000)
        exe = vlib.build_driver("fit_driver", "asan")
        log = os.path.join(wd, "fit.ndjson")
        rc, so, err, _ = vlib.run_driver(exe, ["fit", af, pf, str(seed), log], timeout=3300, env={"OMP_NUM_THREADS": "2"})
        if rc != 0:
            ck.violation({"class": "crash"}, {"what": "fit driver died", "stderr": err[-3000:]})
            return ck.finish()
        rows = vlib.read_ndjson(log)
        _judge(ck, log, rows, "fit")
        # one problem whose flattened normal-equation array has positions beyond 2^32 (66820 coefficients)
        llog = os.path.join(wd, "large.ndjson")
        rc, so, err, _ = vlib.run_driver(exe, ["large", llog], timeout=1500, env={"OMP_NUM_THREADS": "1", "OPENBLAS_NUM_THREADS": "1"})
        lrows = vlib.read_ndjson(llog) if os.path.exists(llog) else []
        if rc != 0 or not lrows:
            ck.violation({"class": "crash", "mode": "large"}, {"what": "fit driver died on the 66820-coefficient problem", "rc": rc, "stderr": err[-2000:]})
        elif not lrows[0]["completed"] or lrows[0]["bad"]:
            ck.violation({"class": "large-problem-not-reproduced"}, {"what": "a consistent unpenalised 260 x 257 problem does not give back its generating coefficients", "row": lrows[0]})
        ck.cov["large_problem"] = lrows[0] if lrows else None
        fits = [r for r in rows if r["kind"] == "fit"]
        ck.cov["skipped_ill_posed"] = sum(1 for r in rows if r["kind"] == "skipped")
        def num(v):      # the driver prints non-finite doubles as the strings "inf" / "nan"
            return v if isinstance(v, (int, float)) else float("inf")
        ck.cov["max_err_over_bound"] = max([num(r["err"]) / num(r["bound"]) for r in fits if r["completed"] and num(r["bound"]) > 0] or [0])
        if ck.cov["max_err_over_bound"] != ck.cov["max_err_over_bound"] or ck.cov["max_err_over_bound"] == float("inf"):
            ck.cov["max_err_over_bound"] = "non-finite"
        ck.cov["traces_validated_against_impl"] = len(fits)
        ck.cov["evaluations"] = len(fits)
        ck.cov["distinct_nontrivial"] = n - ck.cov["skipped_ill_posed"]
        ck.cov["problems_enumerated_by_tlc"] = total
        ck.cov["rule"] = "seeded sample of the TLC-enumerated problems (two fifths 1-D, two fifths 2-D, a fifth 3-D, and 4-D problems on the three smallest axes): axes x penalty orders x smoothing in {0,1,1e3,1e6} x dense/missing/sparse data x unit/varying weights x scalar/per-dimension arguments; each fitted plain, shuffled, with zero-weight extras and through the C API; two problems in seven with weights and smoothing scaled together by 2^-40 / 2^-55 / 2^30; plus one consistent 260 x 257 order-1 problem (positions in F beyond 2^32)"
        return ck.finish(exhaustive=False)
    finally:
        if not os.environ.get("VERIF_KEEP"):
            shutil.rmtree(wd, ignore_errors=True)


def run_c10(pid, tier, seed, replay=None):
    ck = vlib.Check(pid, tier, seed)
    wd = vlib.workdir("c10")
    try:
        af, pf, n, total = _gen(ck, tier, wd, seed, 2000 if tier == "quick" else 12000)
        exe = vlib.build_driver("fit_driver", "asan")
        log = os.path.join(wd, "mono.ndjson")
        rc, so, err, _ = vlib.run_driver(exe, ["fit", af, pf, str(seed), log, "mono"], timeout=3300, env={"OMP_NUM_THREADS": "3"})
        if rc != 0:
            ck.violation({"class": "crash"}, {"what": "fit driver died during monotonic fits", "stderr": err[-3000:]})
            return ck.finish()
        rows = vlib.read_ndjson(log)
        info = _judge(ck, log, rows, "mono")
        monos = [r for r in rows if r["kind"] == "mono"]
        ck.cov["kkt_not_satisfied_(informative,_C11)"] = info.get("info-kkt-not-satisfied", 0)
        ck.cov["inactive_constraint_cases"] = sum(1 for r in monos if r["inactive"])
        ck.cov["traces_validated_against_impl"] = len(monos)
        ck.cov["evaluations"] = len(monos)
        ck.cov["distinct_nontrivial"] = len(monos)
        ck.cov["rule"] = "the C09 problem sample, every choice of monotonic dimension; pseudo-random (oscillating, decreasing, noisy) integer data, increasing data clean and with low outliers at the top; every third fit through splinetable_glamfit; 3 worker threads"
        return ck.finish(exhaustive=False)
    finally:
        if not os.environ.get("VERIF_KEEP"):
            shutil.rmtree(wd, ignore_errors=True)
