"""C01 / C02: evaluation and derivatives against the exact rational B-spline model.

spec/MC_Eval.tla (BSplineMath + EvalAlgo) is model checked: the transcribed algorithms equal the
Cox-de Boor definition on every enumerated (order, knot vector, point); every leaf state is
emitted as a replay case with exact rational basis rows; harness/eval_driver.cpp replays the
cases (1-D and N-D tensor compositions, affine images, neighbours of knots) through every
evaluation entry point of the library built from /repo's working tree.
"""
import os, json
import vlib

KINDS = {
    "C01": lambda r: (r["kind"] == "value") or (r["kind"] == "basis" and (r["api"].startswith("bsplvb_simple") or "values" in r["api"])),
    "C02": lambda r: r["kind"] in ("deriv-mask", "gradient", "deriv-order") or
                     (r["kind"] == "basis" and (r["api"].startswith("bspline_deriv_nonzero") or "derivs" in r["api"])),
}


def generate_cases(ck, tier, wd):
    cfg = "MC_Eval_%s.cfg" % tier
    path = os.path.join(wd, "cases.ndjson")
    n = [0]
    with open(path, "w") as f:
        def sink(o):
            f.write(json.dumps(o, separators=(",", ":")) + "\n")
            n[0] += 1
            if n[0] % 997 == 1:
                ck.sample({"tlc_case": {k: o[k] for k in ("n", "t", "x", "c", "side", "row")}}, cap=4)
        res = vlib.run_tlc("MC_Eval", cfg, tag="mceval", sink=sink, timeout=3400 if tier == "thorough" else 900,
                           xmx="12g" if tier == "thorough" else "6g")
    if res.rc != 0 or res.violated:
        # the specification disagrees with itself (transcription vs. definition): not something a change
        # to /repo can cause - report as infrastructure, never as a property verdict
        raise vlib.Infra("MC_Eval did not model-check cleanly (rc=%s):\n%s" % (res.rc, res.out[-2500:]))
    ck.add_tlc("MC_Eval/" + cfg, res)
    if ck.pid == "C01":
        # the N-dimensional walk of ndsplineeval_core (odometer, carries, product tree) as a step machine: every coefficient
        # read inside the array and the result equal to the block sum, for every small shape and center vector
        r2 = vlib.run_tlc("MC_EvalCore", "MC_EvalCore.cfg", tag="mcevalcore", timeout=900)
        if r2.rc != 0 or r2.violated:
            raise vlib.Infra("MC_EvalCore did not model-check cleanly: %s\n%s" % (r2.violated, r2.out[-2000:]))
        ck.add_tlc("MC_EvalCore (ndsplineeval_core walk, 1..4-D, orders 0..2, all centers)", r2)
        # vacuity guard: the same invariant fails for a carry step that rewinds by the neighbouring dimension's order
        r3 = vlib.run_tlc("MC_EvalCore", "MC_EvalCore_seeded.cfg", tag="mcevalcore2", timeout=900)
        if r3.violated != "Inv":
            raise vlib.Infra("MC_EvalCore_seeded.cfg no longer violates Inv: the invariant may be vacuous\n" + r3.out[-1500:])
        ck.cov["evalcore_seeded_variant_rejected"] = True
    return path, n[0]


def run(pid, tier, seed, replay=None):
    ck = vlib.Check(pid, tier, seed)
    wd = vlib.workdir("eval-" + pid)
    try:
        cases, ncases = generate_cases(ck, tier, wd)
        if ncases == 0:
            raise vlib.Infra("MC_Eval emitted no cases")
        variants = ["asan"] if tier == "quick" else ["asan", "opt"]
        ncompose = 1500 if tier == "quick" else 20000
        maxdim = 6 if tier == "quick" else 9
        total_eval = 0
        for v in variants:
            exe = vlib.build_driver("eval_driver", v)
            # the driver is single-threaded: run it as shards in parallel (disjoint 1-D cases, own share of the compositions)
            nshards = 4 if tier == "quick" else 12
            import concurrent.futures
            def one(k):
                out = os.path.join(wd, "obs-%s-%d.ndjson" % (v, k))
                rc, _, err, wall = vlib.run_driver(exe, [cases, str(seed), str(ncompose), str(maxdim), str(k), str(nshards)], stdout_path=out, timeout=3300)
                rows = []
                try:
                    rows = vlib.read_ndjson(out)
                except ValueError:
                    pass
                return rc, err, wall, rows
            with concurrent.futures.ThreadPoolExecutor(nshards) as ex:
                parts = list(ex.map(one, range(nshards)))
            rows, summ, wall, failed = [], [], 0.0, False
            for k, (rc, err, w, rws) in enumerate(parts):
                sm = [r for r in rws if r.get("kind") == "summary"]
                wall = max(wall, w)
                if rc != 0 or not sm:
                    # the library crashed / tripped a sanitizer / hung while evaluating a generated case
                    ck.violation({"class": "crash", "variant": v, "rc": rc},
                                 {"what": "evaluation driver did not finish (shard %d of %d)" % (k, nshards), "rc": rc, "stderr": err[-3000:]})
                    failed = True
                    continue
                rows += rws
                summ += sm
            if failed or not summ:
                continue
            s = {"cases": summ[0]["cases"], "evaluations": sum(x["evaluations"] for x in summ), "per_api": {}, "mismatch_classes": {},
                 "skipped_float_overflow": sum(x.get("skipped_float_overflow", 0) for x in summ)}
            for x in summ:
                for kk, n in x["per_api"].items():
                    s["per_api"][kk] = s["per_api"].get(kk, 0) + n
                for kk, n in (x.get("mismatch_classes") or {}).items():
                    s["mismatch_classes"][kk] = s["mismatch_classes"].get(kk, 0) + n
            mine = [r for r in rows if r.get("kind") != "summary" and KINDS[pid](r)]
            apis = {k: n for k, n in s["per_api"].items()}
            total_eval += sum(apis.values())
            ck.cov.setdefault("driver_runs", []).append({"variant": v, "wall_s": round(wall, 1), "cases": s["cases"],
                                                         "evaluations": s["evaluations"], "per_api": apis,
                                                         "mismatch_classes_all_properties": s.get("mismatch_classes"),
                                                         "comparisons_skipped_magnitude_above_2^120": s.get("skipped_float_overflow")})
            for r in mine:
                sig = {"class": r["class"], "kind": r["kind"], "api": r["api"], "variant": v}
                ck.violation(sig, r)
        ck.cov["traces_validated_against_impl"] = ncases * len(variants)
        ck.cov["evaluations"] = total_eval
        ck.cov["distinct_nontrivial"] = ncases
        ck.cov["rule"] = ("every leaf state of MC_Eval (order x knot vector family x lattice point) is one case; each is "
                          "replayed 1-D through all entry points under two affine maps and two padding fills, knots are "
                          "approached from the side whose piece must be used, and cases are tensored into constant-order tables of 1..9 dimensions (every affordable dimension count x order) and into random 2..%d-D tables "
                          "with six coefficient patterns; distinct = distinct TLC leaf states" % maxdim)
        ck.assumptions += ["rounding bound (T + sum 4(n_d+1) + 8) * u * M, M from exact rows (DESIGN 3.3)",
                           "long double accumulation of the exact rational rows in the driver",
                           "float-range limits: derivative checks use |scale exponent| <= 10"]
        return ck.finish(exhaustive=False)
    finally:
        import shutil
        if not os.environ.get("VERIF_KEEP"):
            shutil.rmtree(wd, ignore_errors=True)
