"""C04 / C05: center lookup as the step machine spec/Centers.tla.

C04: TLC checks Accept / Range / Bracket / bounded iterations / termination on every reachable state of
the lookup machine (all gap patterns, all lattice positions, +-inf, NaN); every finished state is replayed
on the three lookup paths of the real library under seven strictly increasing lattice->double maps, 1-D and
embedded in 3-D; random real executions are projected to the lattice and validated by Trace_Centers.
C05: the same machine carries the index model (CoefOwned, KnotsOwned); every finished state is executed
through every evaluation entry point in the ASan+UBSan build with assertions enabled.
"""
import os, json, shutil
import vlib


def _gen(ck, tier, wd):
    path = os.path.join(wd, "cases.ndjson")
    rows = []
    res = vlib.run_tlc("Centers", "MC_Centers_%s.cfg" % tier, tag="centers", sink=rows.append,
                       timeout=3000, xmx="12g")
    if res.rc != 0 or res.violated:
        raise vlib.Infra("Centers model did not check cleanly: %s\n%s" % (res.violated, res.out[-2000:]))
    ck.add_tlc("Centers/MC_Centers_%s.cfg" % tier, res)
    live = vlib.run_tlc("Centers", "MC_Centers_live.cfg", tag="centerslive", timeout=900)
    if live.rc != 0 or live.violated:
        raise vlib.Infra("Centers liveness run failed: %s\n%s" % (live.violated, live.out[-2000:]))
    ck.add_tlc("Centers/MC_Centers_live.cfg (PROPERTY Terminates)", live)
    rows.sort(key=lambda r: (r["n"], r["t"], r["x"]))
    vlib.write_ndjson(path, rows)
    for r in rows[:: max(1, len(rows) // 5)][:5]:
        ck.sample({"centers_state": r})
    return path, len(rows)


def _random_trace(ck, exe, wd, seed, count, inv):
    out = os.path.join(wd, "trace.ndjson")
    rc, _, err, wall = vlib.run_driver(exe, ["random", str(count), str(seed)], stdout_path=out, timeout=900)
    if rc != 0:
        ck.violation({"class": "crash", "mode": "random", "rc": rc},
                     {"what": "driver died during random lookups/evaluations", "stderr": err[-3000:]})
        return 0
    n = sum(1 for _ in open(out))
    acc, res, info = vlib.validate_trace("Trace_Centers", "Trace_Centers.cfg", out, tag="trcenters", timeout=900)
    ck.add_tlc("Trace_Centers (%d recorded lookups)" % n, res)
    if not acc:
        if res.violated in (inv,):
            # find the offending line for the replay file
            m = None
            import re
            mm = re.search(r"/\\ l = (\d+)", res.out[res.out.rfind("State"):] if "State" in res.out else "")
            line = None
            if mm:
                idx = int(mm.group(1))
                with open(out) as f:
                    for i, ln in enumerate(f, 1):
                        if i == idx:
                            line = json.loads(ln)
            ck.violation({"class": "trace-rejected", "invariant": res.violated},
                         {"what": "recorded lookup contradicts the specification", "event": line})
        elif res.violated:
            pass   # the other property's invariant: reported by that property's check
        else:
            raise vlib.Infra("trace validation failed without a verdict:\n" + res.out[-2000:])
    return n


def run_c04(pid, tier, seed, replay=None):
    ck = vlib.Check(pid, tier, seed)
    wd = vlib.workdir("c04")
    try:
        cases, n = _gen(ck, tier, wd)
        exe = vlib.build_driver("centers_driver", "asan")
        out = os.path.join(wd, "obs.ndjson")
        rc, _, err, wall = vlib.run_driver(exe, ["replay", cases, str(seed)], stdout_path=out, timeout=3000)
        rows = vlib.read_ndjson(out) if os.path.exists(out) else []
        summ = [r for r in rows if r.get("kind") == "summary"]
        if rc in (124, 137, 142, -14):
            ck.violation({"class": "hang"}, {"what": "center lookup replay did not terminate", "rc": rc})
        elif rc != 0 or not summ:
            ck.violation({"class": "crash", "rc": rc}, {"what": "lookup replay died", "stderr": err[-3000:]})
        else:
            ck.cov["evaluations"] += summ[0]["evaluations"]
            ck.cov["driver"] = summ[0]
            for r in rows:
                if r.get("kind") != "summary":
                    ck.violation({"class": r["kind"], "api": r["api"]}, r)
        nrand = _random_trace(ck, exe, wd, seed, 800 if tier == "quick" else 8000, "TraceC04")
        ck.cov["traces_validated_against_impl"] = n + nrand
        ck.cov["evaluations"] += nrand
        ck.cov["distinct_nontrivial"] = n
        ck.cov["rule"] = ("all gap patterns over {repeated, distinct} for every admissible length of the tier, all lattice positions "
                          "from below the first to above the last knot, +-inf and NaN; each finished state of the lookup machine is one case, "
                          "replayed under 7 monotone lattice->double maps (unit, irregular, 2^+-300 magnitudes, denormal spacing, near DBL_MAX, a range wider than DBL_MAX)")
        return ck.finish(exhaustive=True)
    finally:
        if not os.environ.get("VERIF_KEEP"):
            shutil.rmtree(wd, ignore_errors=True)


def run_c05(pid, tier, seed, replay=None):
    ck = vlib.Check(pid, tier, seed)
    wd = vlib.workdir("c05")
    try:
        cases, n = _gen(ck, tier, wd)
        exe = vlib.build_driver("centers_driver", "asan")
        # quick: every third case (the group structure keeps all knot vectors); thorough: all
        if tier == "quick":
            rows = vlib.read_ndjson(cases)
            rows = [r for i, r in enumerate(rows) if i % 3 == seed % 3 or r["x"] in (999999, 1000000, -1000000)]
            vlib.write_ndjson(cases, rows)
            n = len(rows)
        out = os.path.join(wd, "obs.ndjson")
        rc, _, err, wall = vlib.run_driver(exe, ["safety", cases, str(seed)], stdout_path=out, timeout=3300)
        rows = vlib.read_ndjson(out) if os.path.exists(out) else []
        summ = [r for r in rows if r.get("kind") == "summary"]
        if rc != 0 or not summ:
            ck.violation({"class": "crash", "rc": rc}, {"what": "safety driver died", "stderr": err[-3000:]})
        else:
            ck.cov["evaluations"] += summ[0]["evaluations"]
            ck.cov["driver"] = summ[0]
            for r in rows:
                if r.get("kind") == "unsafe":
                    ck.violation({"class": r["obs"].split(":")[0], "n": r["n"]}, r)
        nrand = _random_trace(ck, exe, wd, seed, 800 if tier == "quick" else 8000, "TraceC05")
        # tables of 3..9 dimensions incl. the gradient refusal clause are the last section of the safety driver (n = -D in its rows)
        ck.cov["traces_validated_against_impl"] = n + nrand
        ck.cov["distinct_nontrivial"] = n
        ck.cov["rule"] = ("finished states of the lookup machine (all gap patterns, all lattice positions, NaN, +-inf) executed through value, "
                          "all bitmasks, gradient, arbitrary derivative, evaluator objects, call operators and C wrappers, 1-D and 2-D "
                          "(second coordinate finite / NaN), ASan+UBSan, assertions on; plus random IEEE bit patterns as coordinates")
        ck.assumptions += ["an out-of-bounds access is observed by AddressSanitizer (heap/stack redzones), not proved absent"]
        return ck.finish(exhaustive=(tier == "thorough"))
    finally:
        if not os.environ.get("VERIF_KEEP"):
            shutil.rmtree(wd, ignore_errors=True)
