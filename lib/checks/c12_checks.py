"""C12: the coordinator/worker hand-shake of walk_descents (spec/WalkDescents.tla).

1. TLC: deadlock freedom, Termination (fair), NoStaleRead, NoRace, Deterministic for several (workers, alphas,
   first-reducing-alpha) configurations, with and without spurious wake-ups.
2. (R) the complete labelled state graph of the 2-worker/3-alpha configuration is dumped; a set of paths covering
   every transition is computed and each is forced onto the REAL walk_descents by the cooperative pthread shim.
3. (V) the real code runs under the shim's own policies (worker-first, coordinator-first, round-robin, seeded
   random) and free-running with real threads for 1..32 workers; every recorded event sequence is validated by
   Trace_WalkDescents (all invariants on every state); results must be bit-identical across schedules and
   worker counts.
Verdicts: deadlock / hang / invariant violation on a recorded execution / differing results = violation.
A recorded execution that is not a behaviour of the specification for any other reason = DRIFT (reported, not failed);
the property is then still decided by the direct observations (deadlock, hang, results).
"""
import os, re, json, shutil, collections
import vlib

SHIM = os.path.join(vlib.HARNESS, "pthread_shim.h")


def _cfg(wd, name, nw, na, fr, spurious, invs, props=(), spec="Spec", extra=""):
    p = os.path.join(wd, name)
    with open(p, "w") as f:
        f.write("SPECIFICATION %s\nCONSTANTS NW = %d NA = %d FirstRed = %d CheckFirst = TRUE Spurious = %s\n" % (
            spec, nw, na, fr, "TRUE" if spurious else "FALSE"))
        if invs:
            f.write("INVARIANTS " + " ".join(invs) + "\n")
        for pr in props:
            f.write("PROPERTY %s\n" % pr)
        f.write(extra)
    return p


def _model_check(ck, wd, tier):
    confs = [(1, 2, 1), (1, 3, 3), (2, 3, 1), (2, 3, 2), (2, 3, 3), (2, 4, 2), (3, 3, 2), (3, 5, 4), (3, 5, 5), (2, 5, 3)]
    if tier == "thorough":
        confs += [(3, 7, 7), (3, 7, 3), (4, 4, 2), (4, 6, 6), (2, 7, 6)]
    invs = ["TypeOK", "NoStaleRead", "NoRace", "Deterministic", "MutexHeldByLive"]
    for nw, na, fr in confs:
        for sp in (False, True):
            cfg = _cfg(wd, "wd_%d_%d_%d_%d.cfg" % (nw, na, fr, sp), nw, na, fr, sp, invs,
                       props=["Termination"] if (not sp and nw * na <= 12) else [])
            res = vlib.run_tlc("WalkDescents", cfg, tag="wd", workers=8, timeout=1500,
                               extra=["-deadlock"] if sp else [])   # with spurious wake-ups deadlock checking adds nothing
            if res.rc != 0 or res.violated:
                raise vlib.Infra("WalkDescents (NW=%d NA=%d FirstRed=%d spurious=%s) did not check cleanly: %s\n%s" % (
                    nw, na, fr, sp, res.violated, res.out[-1500:]))
            ck.add_tlc("WalkDescents NW=%d NA=%d FirstRed=%d Spurious=%s" % (nw, na, fr, sp), res)


def _tsan_fits(ck, wd, tier, seed):
    from checks import fit_checks
    sub = vlib.Check("C12", tier, seed)          # scratch collector for the generator's bookkeeping
    af, pf, n, total = fit_checks._gen(sub, tier if tier == "quick" else "quick", wd, seed, 500 if tier == "quick" else 3000)
    exe = vlib.build_driver("fit_driver", "tsan")
    outs = {}
    counts = [1, 2, 5, 16] if tier == "quick" else [1, 2, 3, 5, 8, 16, 32]
    for nt in counts:
        log = os.path.join(wd, "thr%d.ndjson" % nt)
        rc, so, err, _ = vlib.run_driver(exe, ["threads", af, pf, str(seed), log], timeout=120 if tier == "quick" else 900,
                                         env={"OMP_NUM_THREADS": str(nt), "TSAN_OPTIONS": "halt_on_error=0:exitcode=66:second_deadlock_stack=1"})
        # One report = from "WARNING: ThreadSanitizer" to its SUMMARY line.  A report in which one of the two threads was created
        # by libgomp concerns the OpenMP parallelism inside CHOLMOD / BLAS (their barriers are invisible to ThreadSanitizer, which
        # then flags e.g. cholmod_l_clear_flag's memset against a memset in a finished parallel region): photospline creates its
        # workers with pthread_create in walk_descents and uses no OpenMP construct, so such a report says nothing about it.
        reports = ["WARNING: ThreadSanitizer" + r for r in err.split("WARNING: ThreadSanitizer")[1:]]
        own = [r for r in reports if "libgomp.so" not in r]
        ck.cov["tsan_reports_inside_third_party_openmp"] = ck.cov.get("tsan_reports_inside_third_party_openmp", 0) + len(reports) - len(own)
        races = len(own)
        if rc == 66 and not own:
            rc = 0
        if races or rc == 66:
            first = (own[0] if own else err[err.find("WARNING: ThreadSanitizer"):])[:2500]
            kind = "data-race" if "data race" in first else ("lock-order" if "lock-order" in first else "tsan-report")
            ck.violation({"class": "tsan-" + kind, "workers": nt}, {"what": "ThreadSanitizer report during monotonic fits with %d worker threads" % nt, "report": first})
            if rc not in (0, 66):
                break      # it also hung or died: do not repeat that once per worker count
        elif rc != 0:
            cls = "hang" if rc in (124, 137) else "crash"
            ck.violation({"class": cls, "workers": nt, "stage": "tsan-fits"}, {"what": "fit driver under TSan ended abnormally (rc=%s) with %d workers" % (rc, nt), "stderr": err[-2000:]})
            break          # one hang is enough; do not wait for the time-out once per worker count
        outs[nt] = open(log).read() if os.path.exists(log) else ""
    ref = outs.get(1)
    nfits = ref.count("\n") if ref else 0
    for nt, o in outs.items():
        if ref is not None and o != ref:
            a, b = ref.splitlines(), o.splitlines()
            k = next((i for i in range(min(len(a), len(b))) if a[i] != b[i]), min(len(a), len(b)))
            ck.violation({"class": "result-depends-on-worker-count", "workers": nt},
                         {"what": "monotonic fit coefficients differ between 1 and %d worker threads" % nt, "first_difference": [a[k][:300] if k < len(a) else None, b[k][:300] if k < len(b) else None]})
    return nfits * len(outs)


def _dump_graph(wd, nw, na, fr):
    cfg = _cfg(wd, "dump.cfg", nw, na, fr, False, ["TypeOK"])
    dot = os.path.join(wd, "graph_%d_%d_%d" % (nw, na, fr))
    res = vlib.run_tlc("WalkDescents", cfg, tag="wddump", workers=1, timeout=900,
                       extra=["-dump", "dot,actionlabels", dot])
    if res.rc != 0:
        raise vlib.Infra("graph dump failed:\n" + res.out[-1500:])
    nodes, edges, init = {}, collections.defaultdict(list), None
    for line in open(dot + ".dot"):
        m = re.match(r"^(-?\d+) -> (-?\d+) \[label=\"([^\"]+)\"", line)
        if m:
            if m.group(1) != m.group(2):
                edges[m.group(1)].append(m.group(2))
            continue
        m = re.match(r"^(-?\d+) \[label=\"(.*?)\",(style|tooltip)", line)
        if m:
            th = re.search(r"lastTh = (\d+)", m.group(2))
            nodes[m.group(1)] = int(th.group(1))
            if m.group(3) == "style" and init is None:
                init = m.group(1)
    return nodes, edges, init, res


def _path_cover(nodes, edges, init, cap):
    """paths from the initial state to a terminal state that together cover every edge"""
    uncovered = {(a, b) for a in edges for b in edges[a]}
    terminal = {n for n in nodes if not edges.get(n)}

    def bfs(src, goal):
        prev = {src: None}
        q = collections.deque([src])
        while q:
            u = q.popleft()
            if goal(u) and u != src or (goal(u) and prev[u] is None and u == src and False):
                path = []
                while u is not None:
                    path.append(u)
                    u = prev[u]
                return path[::-1]
            for v in edges.get(u, ()):
                if v not in prev:
                    prev[v] = u
                    q.append(v)
        return None

    paths = []
    while uncovered and len(paths) < cap:
        cur, path = init, [init]
        progressed = False
        while cur not in terminal:
            nxt = [v for v in edges[cur] if (cur, v) in uncovered]
            if nxt:
                v = nxt[0]
                uncovered.discard((cur, v))
                progressed = True
                path.append(v)
                cur = v
                continue
            seg = bfs(cur, lambda u: any((u, v) in uncovered for v in edges.get(u, ())))
            if seg is None:
                seg = bfs(cur, lambda u: u in terminal)
                if seg is None:
                    break
            path += seg[1:]
            cur = seg[-1]
        if not progressed:
            break
        paths.append([nodes[n] for n in path[1:]])
    return paths, len(uncovered)


def _run_plan(exe, wd, plan, name):
    planf = os.path.join(wd, name + ".plan")
    outf = os.path.join(wd, name + ".out")
    vlib.write_ndjson(planf, plan)
    if os.path.exists(outf):
        os.remove(outf)
    start, guard = 0, 0
    while guard < 200:
        guard += 1
        rc, _, err, _ = vlib.run_driver(exe, [planf, outf, str(start)], timeout=1500)
        recs = vlib.read_ndjson(outf) if os.path.exists(outf) else []
        stops = [r["stopped_at"] for r in recs if "stopped_at" in r]
        if rc != 0 and not (stops and stops[-1] >= 0):
            done = [r["run"] for r in recs if "run" in r]
            nxt = (max(done) + 1) if done else start
            with open(outf, "a") as f:
                f.write(json.dumps({"run": nxt, "status": "crash", "rc": rc, "stderr": err[-2500:], "events": [],
                                    "nw": plan[nxt]["nw"] if nxt < len(plan) else 0, "na": 0, "firstred": 0,
                                    "policy": plan[nxt]["policy"] if nxt < len(plan) else "?"}) + "\n")
            start = nxt + 1
        elif stops and stops[-1] >= 0:
            start = stops[-1] + 1
        else:
            break
        if start >= len(plan):
            break
    return [r for r in vlib.read_ndjson(outf) if "run" in r]


def run(pid, tier, seed, replay=None):
    ck = vlib.Check(pid, tier, seed)
    wd = vlib.workdir("c12")
    try:
        import time as _t
        t0 = _t.time(); stage = ck.cov.setdefault("stage_wall_s", {})
        _model_check(ck, wd, tier)
        stage["model_check"] = round(_t.time() - t0, 1); t0 = _t.time()
        exe = vlib.build_driver("c12_driver", "asan", tag="-shim", c_include=SHIM)
        # ---- (R) transition cover of the dumped state graph, replayed on the real code
        plan = []
        for (nw, na, fr) in ([(2, 3, 2), (1, 3, 3)] if tier == "quick" else [(2, 3, 2), (2, 3, 3), (1, 3, 3), (2, 4, 2), (3, 3, 1)]):
            nodes, edges, init, res = _dump_graph(wd, nw, na, fr)
            paths, left = _path_cover(nodes, edges, init, cap=4000)
            ne = sum(len(v) for v in edges.values())
            ck.cov.setdefault("graph_cover", []).append({"NW": nw, "NA": na, "FirstRed": fr, "states": len(nodes), "transitions": ne,
                                                         "paths": len(paths), "transitions_not_covered": left})
            for p in paths:
                plan.append({"nw": nw, "na": na, "firstred": fr, "policy": "sched", "schedule": p})
        nsched = len(plan)
        # ---- (V) own policies, more workers / alphas, free-running real threads
        rng = ck.rng
        combos = [(1, 2, 1), (1, 3, 2), (2, 2, 2), (2, 3, 1), (2, 3, 3), (2, 4, 3), (3, 4, 4), (3, 5, 2), (2, 5, 5), (4, 3, 2), (5, 6, 4),
                  (3, 7, 3), (8, 4, 1), (16, 5, 3), (32, 6, 6), (2, 8, 3), (3, 9, 1)]
        for (nw, na, fr) in combos:
            for pol in ("wf", "cf", "rr"):
                plan.append({"nw": nw, "na": na, "firstred": fr, "policy": pol})
            for i in range(4 if tier == "quick" else 40):
                plan.append({"nw": nw, "na": na, "firstred": fr, "policy": "rand", "seed": rng.randrange(1, 10 ** 6)})
            for i in range(3 if tier == "quick" else 12):
                plan.append({"nw": nw, "na": na, "firstred": fr, "policy": "free", **({"goto": 1} if i == 1 else {})})
        recs = _run_plan(exe, wd, plan, "plan")
        stage["runs_of_real_code"] = round(_t.time() - t0, 1); t0 = _t.time()
        # ---- verdicts from direct observation
        results = collections.defaultdict(set)
        nrun = 0
        for r in recs:
            st = r.get("status")
            sig_base = {"policy": r.get("policy"), "nw": r.get("nw")}
            if st == "no-problem":
                continue
            nrun += 1
            if st == "deadlock":
                ck.violation(dict(sig_base, **{"class": "deadlock"}),
                             {"what": "all threads blocked in the real walk_descents", "pending": r.get("pending"),
                              "plan": plan[r["run"]], "events_tail": r["events"][-12:]})
            elif st == "hang":
                ck.violation(dict(sig_base, **{"class": "hang"}), {"what": "walk_descents did not return within 60 s", "plan": plan[r["run"]]})
            elif st == "crash":
                ck.violation(dict(sig_base, **{"class": "crash"}), {"what": "driver died", "stderr": r.get("stderr"), "plan": plan[r["run"]]})
            if r.get("race"):
                ck.violation(dict(sig_base, **{"class": "unprotected-state-write"}),
                             {"what": "data race: " + r["race"] + " (every other access to that field is made under the mutex)", "plan": plan[r["run"]]})
            if st == "done":
                results[(r["na"], r["firstred"])].add(json.dumps(r["result"], sort_keys=True))
                if r.get("drift") and r["policy"] == "sched":
                    ck.drift("TLC path not followed by the real code: " + r.get("driftwhat", ""))
        for key, vals in results.items():
            if len(vals) > 1:
                ck.violation({"class": "nondeterministic-result"},
                             {"what": "walk_descents returned different x/H1/feasible for the same problem under different schedules or worker counts",
                              "problem(NA,FirstRed)": key, "results": sorted(vals)[:4]})
        # ---- trace validation of every recorded execution
        groups = collections.defaultdict(list)
        for r in recs:
            if r.get("status") == "done" and r["events"]:
                groups[(r["nw"], r["na"], r["firstred"])].append(r)
        nval = 0
        for (nw, na, fr), rs in sorted(groups.items()):
            tr = os.path.join(wd, "trace_%d_%d_%d.ndjson" % (nw, na, fr))
            with open(tr, "w") as f:
                for i, r in enumerate(rs):
                    if i:
                        f.write('{"op":"reset","th":0}\n')
                    for e in r["events"]:
                        f.write(json.dumps(e, separators=(",", ":")) + "\n")
            cfg = _cfg(wd, "trace_%d_%d_%d.cfg" % (nw, na, fr), nw, na, fr, True,
                       ["TypeOK", "NoStaleRead", "NoRace", "ResultOK"], spec="TSpec",
                       extra="POSTCONDITION TraceAccepted\nCHECK_DEADLOCK FALSE\n")
            acc, res, info = vlib.validate_trace("Trace_WalkDescents", cfg, tr, tag="trwd", timeout=900)
            ck.add_tlc("Trace_WalkDescents NW=%d NA=%d FirstRed=%d (%d executions)" % (nw, na, fr, len(rs)), res)
            if acc:
                nval += len(rs)
            elif res.violated in ("NoStaleRead", "NoRace", "ResultOK"):
                ck.violation({"class": "trace-invariant", "invariant": res.violated},
                             {"what": "a recorded execution of the real hand-shake violates " + res.violated,
                              "config": [nw, na, fr], "tlc": res.out[-1500:]})
            else:
                ck.drift("recorded executions for NW=%d NA=%d FirstRed=%d are not behaviours of WalkDescents (hand-shake differs from the specification)" % (nw, na, fr))
        # ---- whole monotonic fits with real threads under ThreadSanitizer: no data race anywhere in the fitter, and the
        # fitted coefficients are bit-identical for every worker count (the C10 problem sample of MC_Glam, every monotonic dimension)
        stage["trace_validation"] = round(_t.time() - t0, 1); t0 = _t.time()
        nfits = _tsan_fits(ck, wd, tier, seed)
        stage["tsan_fits"] = round(_t.time() - t0, 1)
        ck.cov["monotonic_fits_under_tsan"] = nfits
        ck.cov["traces_validated_against_impl"] = nval
        ck.cov["evaluations"] = nrun
        ck.cov["distinct_nontrivial"] = len({json.dumps(p, sort_keys=True) for p in plan})
        ck.cov["scheduled_paths_from_tlc"] = nsched
        ck.cov["rule"] = ("runs of the real walk_descents: one per path of the TLC transition cover (schedule forced by the shim), plus "
                          "worker-first / coordinator-first / round-robin / seeded-random / free-running runs for 1..32 workers and 2..9 alphas")
        for r in recs[:2]:
            ck.sample({"run": {k: r[k] for k in ("nw", "na", "firstred", "policy", "status")}, "events_head": r["events"][:14]})
        ck.assumptions += ["pthread primitives behave as modelled (mutex, condition variable with broadcast, create/join)",
                           "data races on fields the shim does not observe are caught by the ThreadSanitizer stage (real threads, whole fits), i.e. on the schedules that occurred, not on all"]
        return ck.finish(exhaustive=False)
    finally:
        if not os.environ.get("VERIF_KEEP"):
            shutil.rmtree(wd, ignore_errors=True)
