"""C17: grid evaluation.  spec/MC_Grid.tla evaluates Table!EvalTable exactly on grids (sorted / unsorted+repeated /
outside points first / single point / end knots) for 1..3-D tables with sparse integer coefficients; the driver calls
grideval and splinetable_grideval on real tables and compares every interior grid point (listed value, or unlisted with
zero oracle), the index ranges, and pointwise evaluation."""
import os, json, shutil
import vlib


def run(pid, tier, seed, replay=None):
    ck = vlib.Check(pid, tier, seed)
    wd = vlib.workdir("c17")
    try:
        cases = []
        res = vlib.run_tlc("MC_Grid", "MC_Grid_%s.cfg" % tier, tag="mcgrid", sink=cases.append, timeout=3000)
        if res.rc != 0 or res.violated or not cases:
            raise vlib.Infra("MC_Grid failed: %s\n%s" % (res.violated, res.out[-1500:]))
        ck.add_tlc("MC_Grid", res)
        cf = os.path.join(wd, "cases.ndjson")
        vlib.write_ndjson(cf, cases)
        ck.sample({k: cases[0][k] for k in ("order", "knots", "coords")})
        exe = vlib.build_driver("grid_driver", "asan")
        log = os.path.join(wd, "grid.ndjson")
        rc, so, err, _ = vlib.run_driver(exe, [cf, log], timeout=1500)
        if rc != 0:
            ck.violation({"class": "crash"}, {"what": "grid driver died", "stderr": err[-3000:]})
            return ck.finish()
        rows = vlib.read_ndjson(log)
        for r in rows:
            c = cases[r["case"]]
            desc = {"order": c["order"], "knots": c["knots"], "coords": c["coords"], "api": r["api"], "log2_coefficient_scale": r.get("log2scale", 0), "example": r["example"]}
            if not r["completed"]:
                ck.violation({"class": "grideval-failed", "api": r["api"]}, dict(desc, err=r["err"]))
            if r["bad_value"]:
                ck.violation({"class": "wrong-grid-value", "api": r["api"], "ndim": r["ndim"]}, dict(desc, count=r["bad_value"]))
            if r["missing"]:
                ck.violation({"class": "interior-point-not-listed", "api": r["api"], "ndim": r["ndim"]}, dict(desc, count=r["missing"]))
            if r["bad_pointwise"]:
                ck.violation({"class": "differs-from-pointwise-evaluation", "api": r["api"], "ndim": r["ndim"]}, dict(desc, count=r["bad_pointwise"]))
            if r["completed"] and not r["ranges_ok"]:
                ck.violation({"class": "index-ranges", "api": r["api"]}, desc)
        summ = json.loads(so.strip().splitlines()[-1])
        ck.cov["traces_validated_against_impl"] = len(rows)
        ck.cov["evaluations"] = summ["points"]
        ck.cov["distinct_nontrivial"] = len(cases)
        ck.cov["cases_per_dimension_count"] = {str(n): sum(1 for c in cases if len(c["order"]) == n) for n in (1, 2, 3, 4)}
        ck.cov["rule"] = "TLC-enumerated (table, grid) cases: 4 axes (orders 0..3, irregular knots) x 5 abscissa lists per dimension, all 1-D combinations and thinned 2-D / 3-D / 4-D combinations; every interior grid point compared; every table also with its coefficients scaled by 2^-40, 2^-70, 2^-100, 2^40 (exactly scaled oracle)"
        return ck.finish(exhaustive=False)
    finally:
        if not os.environ.get("VERIF_KEEP"):
            shutil.rmtree(wd, ignore_errors=True)
