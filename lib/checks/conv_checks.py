"""C14: convolution against the exact reference of spec/Convolve.tla: (s * M_tau)(x) = (-1)^q q! [tau]_v I^q[s](x - v) with
the q-fold antiderivative in B-form, all in rationals.  MC_Conv checks the reference on itself (an all-ones table stays 1)
and emits exact values on the half-integer lattice over the whole convolved knot range; the driver convolves real tables
(the dimension alone and as any dimension of separable 2-D/3-D tables, C++ and C entry points) and compares metadata exactly
and values within single-precision tolerance."""
import os, json, shutil
import vlib


def run(pid, tier, seed, replay=None):
    ck = vlib.Check(pid, tier, seed)
    wd = vlib.workdir("c14")
    try:
        cases = []
        res = vlib.run_tlc("MC_Conv", "MC_Conv_%s.cfg" % tier, tag="mcconv", sink=cases.append, timeout=3300, env={"CONVSALT": str(seed)})
        if res.rc != 0 or res.violated or not cases:
            raise vlib.Infra("MC_Conv failed: %s\n%s" % (res.violated, res.out[-1500:]))
        ck.add_tlc("MC_Conv", res)
        cf = os.path.join(wd, "cases.ndjson")
        vlib.write_ndjson(cf, cases)
        ck.sample({k: cases[0][k] for k in ("n", "t", "c", "tau", "order")})
        ck.sample({"pts_head": cases[0]["pts"][:3]})
        exe = vlib.build_driver("conv_driver", "asan")
        log = os.path.join(wd, "conv.ndjson")
        rc, so, err, _ = vlib.run_driver(exe, [cf, str(seed), log], timeout=3000)
        if rc == 124:
            ck.violation({"class": "hang"}, {"what": "convolution did not finish"})
            return ck.finish()
        if rc != 0:
            ck.violation({"class": "crash"}, {"what": "convolution driver died", "stderr": err[-3000:]})
            return ck.finish()
        rows = vlib.read_ndjson(log)
        npts = 0
        for r in rows:
            c = cases[r["case"]]
            desc = {"order": c["n"], "knots": c["t"], "coef": c["c"], "tau": c["tau"], "layout": r["layout"], "affine_image": r.get("affine", 0), "api": r["api"], "example": r["example"]}
            even = c["n"] % 2 == 0
            if not r["completed"]:
                ck.violation({"class": "convolve-failed", "order": c["n"], "api": r["api"]}, dict(desc, err=r["err"]))
            elif not r["meta_ok"] or not r["strides_ok"]:
                ck.violation({"class": "wrong-metadata", "order": c["n"], "api": r["api"]}, desc)
            elif r["bad"]:
                ck.violation({"class": "wrong-values", "order": c["n"], "even_order": even, "api": r["api"], "layout": r["layout"]}, dict(desc, bad=r["bad"], of=r["points"]))
            npts += r["points"]
        ck.cov["traces_validated_against_impl"] = len(rows)
        ck.cov["evaluations"] = npts
        ck.cov["distinct_nontrivial"] = len(cases)
        ck.cov["pairs_order_kernelknots"] = sorted({(c["n"], len(c["tau"])) for c in cases})
        ck.cov["rule"] = ("TLC-enumerated (source spline, kernel) pairs: orders 0..5 x three integer knot families x two lengths x every unit coefficient vector and one mixed vector, kernels = increasing 2..7-point subsets of a half-integer lattice (a seed-rotated 1/Keep sample) plus a hand-written catalogue; order + kernel degree limited per family by 32-bit exact arithmetic (5..7); every half-integer point of the convolved knot range; each as 1-D table and as dimension 0 / 1 of separable 2-D and 3-D tables (and 2 / 3 of 3-D / 4-D ones); each case also under three affine images of the knots (0.1 spacing, thirds with offsets, an irrational scale with a large offset) whose pairwise sums are not exactly representable")
        return ck.finish(exhaustive=False)
    finally:
        if not os.environ.get("VERIF_KEEP"):
            shutil.rmtree(wd, ignore_errors=True)
