"""C16: the auxiliary key store as the ordered map of spec/AuxStore.tla.

TLC: exhaustive BFS over a reduced alphabet (invariants NoDuplicateKeys, OnlyStorable, LookupIsLastWrite);
tlc -simulate over the full alphabet generates operation histories (Gen_AuxStore).  The histories, and the
driver's own seeded random histories, are executed on a real table (C++ and C entry points, FITS round trips
through memory and disk); every call is logged with its observed outcome and the projected store, and
Trace_AuxStore (deviation-collecting trace validation) judges every line.
"""
import os, json, shutil
import vlib

PROBE = """
#include <photospline/splinetable.h>
int main(){ photospline::splinetable<> t; return t.remove_key("A") ? 1 : 0; }
"""


def _validate(ck, log, label):
    rep = []
    res = vlib.run_tlc("Trace_AuxStore", "Trace_AuxStore.cfg", tag="traux", workers=1, env={"TRACE": log},
                       timeout=1500, sink=rep.append, xmx="6g")
    ck.add_tlc("Trace_AuxStore (%s)" % label, res)
    if res.rc != 0 or not rep:
        raise vlib.Infra("Trace_AuxStore failed on %s:\n%s" % (label, res.out[-2000:]))
    r = rep[-1]
    for d in r["deviations"]:
        ev = d["ev"]
        sig = {"class": d["kind"], "k": ev.get("k"), "v": ev.get("v"), "op": ev.get("op")}
        ck.violation(sig, {"what": "real call deviates from AuxStore: " + d["kind"], "line": d["line"], "event": ev, "log": label})
    return r["lines"]


def run(pid, tier, seed, replay=None):
    ck = vlib.Check(pid, tier, seed)
    wd = vlib.workdir("c16")
    try:
        res = vlib.run_tlc("AuxStore", "MC_AuxStore.cfg", tag="auxmc", timeout=900)
        if res.rc != 0 or res.violated:
            raise vlib.Infra("AuxStore BFS failed: %s\n%s" % (res.violated, res.out[-1500:]))
        ck.add_tlc("AuxStore/MC_AuxStore.cfg", res)
        hist = []
        nsim = 60 if tier == "quick" else 400
        res = vlib.run_tlc("Gen_AuxStore", "Gen_AuxStore.cfg", tag="auxgen", workers=4, simulate=nsim, depth=41,
                           seed=seed, sink=hist.append, timeout=1500)
        if res.violated or not hist:
            raise vlib.Infra("Gen_AuxStore failed: %s\n%s" % (res.violated, res.out[-1500:]))
        ck.add_tlc("Gen_AuxStore (simulate)", res)
        seen, uniq = set(), []
        for h in hist:                      # TLC evaluates the emitting invariant more than once per behaviour
            key = json.dumps(h, sort_keys=True)
            if key not in seen:
                seen.add(key)
                uniq.append(h)
        hist = uniq[: (250 if tier == "quick" else 1500)]
        hf = os.path.join(wd, "hist.ndjson")
        vlib.write_ndjson(hf, hist)
        ck.sample({"tlc_history_head": hist[0][:6]})
        ok, out = vlib.compile_probe(PROBE)
        extra = [] if ok else ["-DNO_REMOVE_KEY"]
        if not ok:
            ck.cov["remove_key_probe"] = out[-600:]
        exe = vlib.build_driver("aux_driver", "asan", extra=extra)
        total = 0
        log1 = os.path.join(wd, "replay.ndjson")
        rc, so, err, _ = vlib.run_driver(exe, ["replay", hf, log1], timeout=1500)
        if rc != 0:
            ck.violation({"class": "crash", "mode": "replay"}, {"what": "aux driver died", "stderr": err[-3000:]})
        else:
            total += _validate(ck, log1, "TLC histories")
        log2 = os.path.join(wd, "random.ndjson")
        rc, so, err, _ = vlib.run_driver(exe, ["random", str(200 if tier == "quick" else 1500), "40", str(seed), log2], timeout=1500)
        if rc != 0:
            ck.violation({"class": "crash", "mode": "random"}, {"what": "aux driver died", "stderr": err[-3000:]})
        else:
            total += _validate(ck, log2, "driver random histories")
            with open(log2) as f:
                ck.sample({"recorded_calls": [json.loads(next(f)) for _ in range(4)]})
        ck.cov["traces_validated_against_impl"] = len(hist) + (200 if tier == "quick" else 1500)
        ck.cov["evaluations"] = total
        ck.cov["distinct_nontrivial"] = len(hist)
        ck.cov["rule"] = ("operation histories of length 40 over 18 keys (short, 8-char, HIERARCH, reserved short and long, lower-case, empty, blank, '=') and "
                          "16 values (int, double, empty, text, trailing blanks, quote, exactly-fitting and one-too-long for each card kind), "
                          "interleaved with FITS round trips (memory and disk); from TLC simulation and from the driver's seeded generator")
        return ck.finish(exhaustive=False)
    finally:
        if not os.environ.get("VERIF_KEEP"):
            shutil.rmtree(wd, ignore_errors=True)
