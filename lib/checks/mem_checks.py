"""C19: estimateMemory is an upper bound on the bytes simultaneously requested while loading and convolving.
TLC (MC_Memory): on the model of the allocation sequence (Memory!AllocTrace) Peak <= Estimate for every small file shape,
kernel size and dimension.  Driver: real files (1..6 dimensions, mixed orders, 0..50 aux keys of all lengths), no
convolution or 2..8 kernel knots in any dimension, measured with a byte-counting allocator; Trace_Memory judges
peak <= estimate (the property) and reports model drift (allocation sequence, formula)."""
import os, json, shutil
import vlib


def run(pid, tier, seed, replay=None):
    ck = vlib.Check(pid, tier, seed)
    wd = vlib.workdir("c19")
    try:
        res = vlib.run_tlc("MC_Memory", "MC_Memory.cfg", tag="mcmem", timeout=1500)
        if res.rc != 0 or res.violated:
            raise vlib.Infra("MC_Memory failed: %s\n%s" % (res.violated, res.out[-1500:]))
        ck.add_tlc("MC_Memory", res)
        exe = vlib.build_driver("mem_driver", "asan")
        log = os.path.join(wd, "mem.ndjson")
        rc, so, err, _ = vlib.run_driver(exe, [str(150 if tier == "quick" else 2500), str(seed), log], timeout=3000)
        if rc != 0:
            ck.violation({"class": "crash"}, {"what": "memory driver died", "stderr": err[-3000:]})
            return ck.finish()
        rows = vlib.read_ndjson(log)
        rep = []
        r2 = vlib.run_tlc("Trace_Memory", "Trace_Memory.cfg", tag="trmem", workers=1, env={"TRACE": log}, sink=rep.append, timeout=2400)
        ck.add_tlc("Trace_Memory (%d measurements)" % len(rows), r2)
        if r2.rc != 0 or not rep:
            raise vlib.Infra("Trace_Memory failed:\n" + r2.out[-2000:])
        drift = set()
        for d in rep[-1]["deviations"]:
            ev = rows[d["line"] - 1]
            if d["kind"].startswith("drift"):
                drift.add(d["kind"])
            else:
                ck.violation({"class": d["kind"], "ndim": ev["m"]["ndim"]},
                             {"what": "measured peak %d exceeds estimateMemory %d" % (ev["peak"], ev["estimate"]), "event": {k: ev[k] for k in ("m", "cd", "nk", "peak", "estimate")}})
        for k in sorted(drift):
            ck.drift(k + ": the real allocation behaviour differs from Memory.tla (property decided by the measured comparison)")
        ck.cov["min_slack_bytes"] = min(r["estimate"] - r["peak"] for r in rows)
        ck.cov["traces_validated_against_impl"] = len(rows)
        ck.cov["evaluations"] = len(rows)
        ck.cov["distinct_nontrivial"] = len(rows)
        ck.cov["rule"] = "files of 1..6 dimensions, orders 0..5, 0..50 mixed auxiliary keys (short/HIERARCH, value lengths 0..68) or 60..260 keys of one kind with card-filling values; every seventh file has one axis of 300..900 knots; each loaded without convolution and with 2..8 kernel knots in a random dimension"
        if rows:
            ck.sample({k: rows[min(1, len(rows) - 1)][k] for k in ("m", "cd", "nk", "peak", "estimate")})
        return ck.finish(exhaustive=False)
    finally:
        if not os.environ.get("VERIF_KEEP"):
            shutil.rmtree(wd, ignore_errors=True)
