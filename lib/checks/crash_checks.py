"""C08: interrupted / failing writes, spec/FitsCrash.tla.

For each catalogue table the real writer runs once under the stdio interposer (harness/iofault.c, LD_PRELOAD), which
records the sequence of file operations with their payload.  TLC checks the protocol model instantiated with the
recorded operation kinds (SuccessIsHonest, CrashReportsNothing).  Then every crash point (every operation boundary and
byte prefixes of every write) is materialised by replaying the recorded prefix into a file which the real reader loads,
and every single operation is made to fail in a real run of the writer (ENOSPC, EIO; plus RLIMIT_FSIZE limits); the
observations are judged by FitsCrash!Judge in Trace_FitsCrash."""
import os, json, shutil, subprocess
import vlib


def _so(wd):
    so = os.path.join(wd, "iofault.so")
    r = subprocess.run(["gcc", "-shared", "-fPIC", "-O1", "-o", so, os.path.join(vlib.HARNESS, "iofault.c"), "-ldl"],
                       stdout=subprocess.PIPE, stderr=subprocess.STDOUT, text=True)
    if r.returncode != 0:
        raise vlib.Infra("cannot build iofault.so:\n" + r.stdout)
    return so


def _run(exe, args, env=None, preload=None):
    e = dict(os.environ)
    if env:
        e.update({k: str(v) for k, v in env.items()})
    if preload:
        e["LD_PRELOAD"] = preload
    p = subprocess.run(["timeout", "120", exe] + args, stdout=subprocess.PIPE, stderr=subprocess.PIPE, env=e)
    out = p.stdout.decode(errors="replace").strip().splitlines()
    js = [l for l in out if l.startswith("{")]
    return p.returncode, (json.loads(js[-1]) if js else None), p.stderr.decode(errors="replace")


def run(pid, tier, seed, replay=None):
    ck = vlib.Check(pid, tier, seed)
    wd = vlib.workdir("c08")
    shm = "/dev/shm/verif_c08_%d" % os.getpid()
    os.makedirs(shm, exist_ok=True)
    try:
        so = _so(wd)
        exe = vlib.build_driver("c08_driver", "opt")
        obs = []
        # 8..15: the shapes 0..7 with 49 keys (the header outgrows its block after the data were written); 16: 40 x 359, 49 keys
        # 17: 2400 x 20 with a first knot vector of seven blocks (errors surface while an extension is being written)
        tables = [0, 3, 5, 9, 11, 16, 17] if tier == "quick" else [0, 1, 2, 3, 4, 5, 6, 7, 8, 9, 10, 11, 12, 14, 16, 17]
        if os.environ.get("VERIF_C08_TABLES"):          # experiments: an explicit list of catalogue ids
            tables = [int(t) for t in os.environ["VERIF_C08_TABLES"].split(",")]
        nscen = 0
        for tid in tables:
            target = os.path.join(shm, "t%d.fits" % tid)
            logf, dataf = os.path.join(wd, "ops%d.log" % tid), os.path.join(wd, "ops%d.dat" % tid)
            for f in (logf, dataf, target):
                if os.path.exists(f):
                    os.remove(f)
            rc, rep, err = _run(exe, ["write", str(tid), target, "cxx"], env={"IOFAULT_MATCH": "t%d.fits" % tid, "IOFAULT_LOG": logf, "IOFAULT_DATA": dataf}, preload=so)
            if rc != 0 or not rep or not os.path.exists(logf):
                raise vlib.Infra("recording run failed (table %d): rc=%s %s" % (tid, rc, err[-800:]))
            rc2, rb, _ = _run(exe, ["readback", str(tid), target])
            obs.append({"kind": "clean", "table": tid, "reported": rep["reported"], "verdict": rb["verdict"] if rb else "crash"})
            ops = []
            for line in open(logf):
                i, op, off, ln, res = line.split()
                ops.append((op, int(off), int(ln)))
            data = open(dataf, "rb").read() if os.path.exists(dataf) else b""
            kinds = [o[0] for o in ops]
            opsfile = os.path.join(wd, "kinds%d.ndjson" % tid)
            with open(opsfile, "w") as f:
                f.write(json.dumps(kinds) + "\n")
            res = vlib.run_tlc("MC_FitsCrash", "MC_FitsCrash.cfg", tag="mccrash", workers=2, env={"OPS": opsfile}, timeout=900)
            if res.rc != 0 or res.violated:
                raise vlib.Infra("MC_FitsCrash failed: %s\n%s" % (res.violated, res.out[-1500:]))
            ck.add_tlc("MC_FitsCrash (table %d, %d recorded operations)" % (tid, len(ops)), res)
            ck.cov.setdefault("recorded_ops", {})[str(tid)] = {"n": len(ops), "writes": kinds.count("write"), "bytes": len(data)}
            # ---- crash points: replay prefixes of the recorded operations into a file
            def materialise(nops, extra_bytes):
                img = bytearray()
                pos, dpos = 0, 0
                for j, (op, off, ln) in enumerate(ops):
                    take = ln if j < nops else (extra_bytes if j == nops else 0)
                    if j > nops:
                        break
                    if op == "write":
                        if take:
                            chunk = data[dpos:dpos + take]
                            if len(img) < off + len(chunk):
                                img.extend(b"\0" * (off + len(chunk) - len(img)))
                            img[off:off + len(chunk)] = chunk
                        dpos += ln
                return bytes(img)
            widx = [j for j, o in enumerate(ops) if o[0] == "write"]
            points = []
            for j in range(len(ops) + 1):
                points.append((j, 0))
            bytewise = tid == 0 or tier == "thorough" and tid in (0, 2)
            for j in widx:
                ln = ops[j][2]
                cuts = range(1, ln) if (bytewise and ln <= 3000 and len(widx) <= 12) else [1, ln // 3, ln // 2, ln - 1, 2879, 2880, 2881]
                for b in cuts:
                    if 0 < b < ln:
                        points.append((j, b))
            if tier == "quick" and len(points) > 700:
                step = len(points) // 700 + 1
                points = points[::step]
            crashfile = os.path.join(shm, "crash%d.fits" % tid)
            for (j, b) in points:
                img = materialise(j, b)
                if j == 0 and b == 0:
                    if os.path.exists(crashfile):
                        os.remove(crashfile)
                else:
                    with open(crashfile, "wb") as f:
                        f.write(img)
                rc3, rb, err3 = _run(exe, ["readback", str(tid), crashfile])
                obs.append({"kind": "crash", "table": tid, "k": j, "bytes": b, "verdict": rb["verdict"] if rb else "crash:" + err3[-200:], "reported": "none"})
                nscen += 1
            # ---- single failing operations in real runs of the writer
            errnos = [28, 5] if tier == "thorough" else [28]      # ENOSPC, EIO
            # the property's fault classes are no space / size limit / write error / close error: operations that
            # transfer or commit data.  A failing fseeko on a regular file is not one of them (cfitsio ignores its status).
            fail_idx = [j for j in range(len(ops)) if ops[j][0] in ("write", "flush", "close")]
            if tier == "quick" and len(fail_idx) > 60:
                fail_idx = fail_idx[:20] + fail_idx[20:-20:max(1, (len(fail_idx) - 40) // 20)] + fail_idx[-20:]
            for how in ("cxx", "c"):
                for j in fail_idx:
                    for en in errnos:
                        if os.path.exists(target):
                            os.remove(target)
                        rc4, rep, err4 = _run(exe, ["write", str(tid), target, how], env={"IOFAULT_MATCH": "t%d.fits" % tid, "IOFAULT_FAIL": j, "IOFAULT_ERRNO": en}, preload=so)
                        rc5, rb, _ = _run(exe, ["readback", str(tid), target])
                        obs.append({"kind": "fail", "table": tid, "k": j, "op": ops[j][0], "errno": en, "how": how,
                                    "reported": rep["reported"] if rep else "crash", "verdict": rb["verdict"] if rb else "crash"})
                        nscen += 1
            # ---- size limits (EFBIG) at a few positions
            total = max((o[1] + o[2]) for o in ops if o[0] == "write")
            for lim in sorted({1, 2880, total // 2, total - 2880, total - 4097, total - 1}):
                if lim <= 0:
                    continue
                if os.path.exists(target):
                    os.remove(target)
                rc6, rep, _ = _run(exe, ["write", str(tid), target, "cxx"], env={"VERIF_FSIZE": lim})
                rc7, rb, _ = _run(exe, ["readback", str(tid), target])
                obs.append({"kind": "fail", "table": tid, "k": -1, "op": "rlimit", "errno": 27, "how": "cxx", "limit": lim, "short_by": total - lim,
                            "reported": rep["reported"] if rep else "crash", "verdict": rb["verdict"] if rb else "crash"})
                nscen += 1
        log = os.path.join(wd, "obs.ndjson")
        vlib.write_ndjson(log, obs)
        rep = []
        r2 = vlib.run_tlc("Trace_FitsCrash", "Trace_FitsCrash.cfg", tag="trcrash", workers=1, env={"TRACE": log}, sink=rep.append, timeout=1500)
        ck.add_tlc("Trace_FitsCrash (%d observed scenarios)" % len(obs), r2)
        if r2.rc != 0 or not rep:
            raise vlib.Infra("Trace_FitsCrash failed:\n" + r2.out[-2000:])
        for d in rep[-1]["deviations"]:
            ev = obs[d["line"] - 1]
            ck.violation({"class": d["kind"], "op": ev.get("op"), "scenario": ev["kind"], "how": ev.get("how"), "short_by": ev.get("short_by")}, {"what": "C08 violated: " + d["kind"], "scenario": ev})
        ck.cov["traces_validated_against_impl"] = len(obs)
        ck.cov["evaluations"] = len(obs)
        ck.cov["distinct_nontrivial"] = nscen
        ck.cov["rule"] = ("catalogue: 8 shapes (1..5-D, 4 .. 200000 coefficients) with one key and with 49 keys (header grows after the data were written); per catalogue table: one crash scenario per operation boundary plus byte prefixes of every write (all byte counts for the one-block table), "
                          "one failing-operation scenario per recorded operation x errno x {C++, C} entry point, five RLIMIT_FSIZE limits")
        ck.sample(obs[1])
        ck.sample(obs[-1])
        return ck.finish(exhaustive=(tier == "thorough"))
    finally:
        shutil.rmtree(shm, ignore_errors=True)
        if not os.environ.get("VERIF_KEEP"):
            shutil.rmtree(wd, ignore_errors=True)
