"""C18: the C interface against a C++ twin, call by call (spec/CApi.tla: handle state machine + contract).
TLC: BFS of the handle machine (all sequences of length 4 over 2 handles), tlc -simulate sequences of 30 calls over 3
handles.  Driver: each sequence in a forked child under ASan+LSan with std::set_terminate trapping escaped exceptions;
every call logged with C status, twin outcome, value/table agreement; Trace_CApi judges every call."""
import os, json, shutil
import vlib


def run(pid, tier, seed, replay=None):
    ck = vlib.Check(pid, tier, seed)
    wd = vlib.workdir("c18")
    try:
        res = vlib.run_tlc("CApi", "MC_CApi.cfg", tag="capimc", timeout=1500)
        if res.rc != 0 or res.violated:
            raise vlib.Infra("CApi BFS failed: %s\n%s" % (res.violated, res.out[-1500:]))
        ck.add_tlc("CApi/MC_CApi.cfg (BFS)", res)
        seqs = []
        res = vlib.run_tlc("CApi", "Gen_CApi.cfg", tag="capigen", workers=4, simulate=(60 if tier == "quick" else 300), depth=31, seed=seed,
                           sink=seqs.append, timeout=1500)
        if res.violated or not seqs:
            raise vlib.Infra("CApi simulation failed: %s\n%s" % (res.violated, res.out[-1500:]))
        ck.add_tlc("CApi (simulate)", res)
        seen, uniq = set(), []
        for s in seqs:
            k = json.dumps(s, sort_keys=True)
            if k not in seen:
                seen.add(k)
                uniq.append(s)
        seqs = uniq[: (400 if tier == "quick" else 2500)]
        # directed sequences: every function with every argument class on a table read from each valid file
        directed = []
        for file in (1, 2):
            for f in ("write", "write_mem", "get_key", "read_key", "write_key", "accessors", "eval", "grideval", "permute", "convolve"):
                directed.append([{"f": "read", "h": 1, "file": file}] + [{"f": f, "h": 1, "arg": a} for a in range(4)] + [{"f": "accessors", "h": 1, "arg": 0}, {"f": "free", "h": 1}])
        for file in (11, 13, 15, 1):
            directed.append([{"f": "init", "h": 1}, {"f": "read_mem", "h": 1, "file": file}, {"f": "read", "h": 1, "file": file}, {"f": "read_mem", "h": 1, "file": 1},
                             {"f": "glamfit", "h": 1, "arg": 0}, {"f": "glamfit", "h": 1, "arg": 1}, {"f": "glamfit", "h": 1, "arg": 1}, {"f": "accessors", "h": 1, "arg": 0}, {"f": "free", "h": 1}])
        # an initialised handle that holds no table: writing fails (nothing may be kept), keys can be written and read, then a table arrives
        directed.append([{"f": "init", "h": 1}] + [{"f": "write_mem", "h": 1, "arg": a} for a in range(4)] + [{"f": "write", "h": 1, "arg": 0}, {"f": "write", "h": 1, "arg": 3},
                        {"f": "write_key", "h": 1, "arg": 0}, {"f": "get_key", "h": 1, "arg": 0}, {"f": "read_key", "h": 1, "arg": 1}, {"f": "write_mem", "h": 1, "arg": 0},
                        {"f": "read_mem", "h": 1, "file": 1}, {"f": "write_mem", "h": 1, "arg": 0}, {"f": "free", "h": 1}])
        seqs = directed + seqs
        sf = os.path.join(wd, "seqs.ndjson")
        vlib.write_ndjson(sf, seqs)
        ck.sample({"sequence_head": seqs[-1][:6]})
        exe = vlib.build_driver("capi_driver", "asan")
        log = os.path.join(wd, "capi.ndjson")
        rc, so, err, _ = vlib.run_driver(exe, [sf, log, str(seed)], timeout=3000, env={"ASAN_OPTIONS": "detect_leaks=1:allocator_may_return_null=1"})
        if rc != 0:
            ck.violation({"class": "crash"}, {"what": "capi driver died", "stderr": err[-3000:]})
            return ck.finish()
        rows = vlib.read_ndjson(log)
        for r in rows:
            if r["f"] == "crash":
                esc = "TERMINATE" in r["detail"]
                ck.violation({"class": "escaped-exception" if esc else "crash", "during": r["during"].split(" arg")[0], "obs": r["obs"]},
                             {"what": ("an exception escaped the C wrapper" if esc else "sequence ended abnormally (%s)" % r["obs"]) + " during " + r["during"], "detail": r["detail"][:1200], "tag": r["tag"]})
            elif r["f"] == "leak":
                import re
                m = re.search(r"in (ndsparse_allocate|splinetable_\w+|readsplinefitstable\w*|writesplinefitstable\w*|photospline::[\w:<>]+)", r["detail"])
                ck.violation({"class": "leak", "where": m.group(1) if m else "?"},
                             {"what": "resources not released after all handles were freed (LeakSanitizer)", "detail": r["detail"][:1500], "tag": r["tag"]})
        rep = []
        r2 = vlib.run_tlc("Trace_CApi", "Trace_CApi.cfg", tag="trcapi", workers=1, env={"TRACE": log}, sink=rep.append, timeout=2400)
        ck.add_tlc("Trace_CApi (%d calls)" % len(rows), r2)
        if r2.rc != 0 or not rep:
            raise vlib.Infra("Trace_CApi failed:\n" + r2.out[-2000:])
        for d in rep[-1]["deviations"]:
            ev = rows[d["line"] - 1]
            ck.violation({"class": d["kind"], "f": d["f"], "note": ev.get("note"), "twin_ok": ev.get("twin_ok")}, {"what": "C wrapper deviates from the C++ operation: " + d["kind"], "event": ev})
        ck.cov["traces_validated_against_impl"] = len(seqs)
        ck.cov["evaluations"] = len(rows)
        ck.cov["distinct_nontrivial"] = len(seqs)
        ck.cov["rule"] = "call sequences: 25 directed ones (every function x 4 argument classes on each valid file; failing reads) and TLC-simulated sequences of 30 calls over 3 handles"
        return ck.finish(exhaustive=False)
    finally:
        if not os.environ.get("VERIF_KEEP"):
            shutil.rmtree(wd, ignore_errors=True)
