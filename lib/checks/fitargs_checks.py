"""C13: the argument space of fit / splinetable_glamfit as classes (spec/FitArgs.tla).  TLC enumerates every combination
with at most one (quick) / two (thorough) inconsistent classes in 1..3 dimensions together with the outcomes it permits;
the driver instantiates each combination concretely and calls fit on an empty table, on a populated table and through the
C wrapper, each in a forked ASan+UBSan child; Trace_FitArgs judges outcome, unchanged-on-reject and the C status."""
import os, json, shutil
import vlib


def run(pid, tier, seed, replay=None):
    ck = vlib.Check(pid, tier, seed)
    wd = vlib.workdir("c13")
    try:
        combos = []
        res = vlib.run_tlc("FitArgs", "MC_FitArgs_%s.cfg" % tier, tag="fitargs", sink=combos.append, timeout=1500)
        if res.rc != 0 or res.violated or not combos:
            raise vlib.Infra("FitArgs failed: %s\n%s" % (res.violated, res.out[-1500:]))
        ck.add_tlc("FitArgs", res)
        seen, uniq = set(), []
        for c in combos:
            k = json.dumps(c, sort_keys=True)
            if k not in seen:
                seen.add(k)
                uniq.append(c)
        combos = uniq
        cf = os.path.join(wd, "combos.ndjson")
        vlib.write_ndjson(cf, combos)
        exe = vlib.build_driver("fitargs_driver", "asan")
        log = os.path.join(wd, "fitargs.ndjson")
        rc, so, err, _ = vlib.run_driver(exe, [cf, str(seed), log], timeout=3300)
        if rc != 0:
            ck.violation({"class": "crash"}, {"what": "fitargs driver died", "stderr": err[-3000:]})
            return ck.finish()
        rows = vlib.read_ndjson(log)
        rep = []
        r2 = vlib.run_tlc("Trace_FitArgs", "Trace_FitArgs.cfg", tag="trfitargs", workers=1, env={"TRACE": log}, sink=rep.append, timeout=1500)
        ck.add_tlc("Trace_FitArgs (%d calls)" % len(rows), r2)
        if r2.rc != 0 or not rep:
            raise vlib.Infra("Trace_FitArgs failed:\n" + r2.out[-2000:])
        good = {"weights": "ok", "ncoord": "ok", "coordlen": "ok", "index": "ok", "norder": "ok", "nknotv": "ok", "knots": "ok", "penorder": "ok", "order": "ok"}
        for d in rep[-1]["deviations"]:
            ev = rows[d["line"] - 1]
            badargs = sorted("%s=%s" % (k, v) for k, v in ev["combo"].items() if (k in good and v != good[k]) or (k in ("nsmooth", "npen") and v in ("other", "empty")) or (k == "monodim" and v in ("ndim", "huge")))
            ck.violation({"class": d["kind"], "bad": badargs, "api": ev["api"], "outcome": ev["outcome"].split(":")[0]},
                         {"what": "fit violates C13: " + d["kind"], "combo": ev["combo"], "ndim": ev["ndim"], "api": ev["api"], "outcome": ev["outcome"], "unchanged": ev["unchanged"], "detail": ev.get("detail", "")[:600]})
        ck.cov["outcomes"] = {}
        for r in rows:
            k = r["outcome"].split(":")[0]
            ck.cov["outcomes"][k] = ck.cov["outcomes"].get(k, 0) + 1
        ck.cov["traces_validated_against_impl"] = len(rows)
        ck.cov["evaluations"] = len(rows)
        ck.cov["distinct_nontrivial"] = len(combos)
        ck.cov["rule"] = "every combination of argument classes with at most %d inconsistent classes, in %s dimensions; each called on an empty table, on a populated table and (where expressible) through splinetable_glamfit" % (1 if tier == "quick" else 2, "1..2" if tier == "quick" else "1..3")
        ck.sample(combos[len(combos) // 2])
        return ck.finish(exhaustive=True)
    finally:
        if not os.environ.get("VERIF_KEEP"):
            shutil.rmtree(wd, ignore_errors=True)
