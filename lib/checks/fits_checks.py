"""C06 / C07 against spec/FitsLayout.tla (HDU-level model of the documented layout).

C06: TLC (MC_FitsLayout) proves ReadF(WriteT(T)) = T and the legacy variants on the model; the driver has the library
write random tables (1..9-D, unequal axes, orders 0..5, special coefficient values, extents, periods, aux keys; memory
and disk), an independent FITS codec parses the bytes, and Trace_Fits requires the parsed file to be WriteT(T); the
codec writes files in the layout and its legacy variants, the library reads them, Trace_Fits requires ReadF(F);
library write -> read must give ==, equal bits, strides, extents, aux; shipped reference files must keep their digests.
C07: Gen_FitsDamage enumerates mutations of valid files; each damaged file is read by every reader entry point in a
forked ASan child followed by a battery of operations; Trace_Fits requires reject+empty+reusable or a well-formed table.
"""
import os, json, shutil, random
import vlib

GOLDEN = os.path.join(vlib.VERIF, "golden", "shipped_digests.json")


def _trace(ck, log, label, rows):
    rep = []
    r2 = vlib.run_tlc("Trace_Fits", "Trace_Fits.cfg", tag="trfits", workers=1, env={"TRACE": log}, sink=rep.append, timeout=3000, xmx="10g")
    ck.add_tlc("Trace_Fits (%s, %d events)" % (label, len(rows)), r2)
    if r2.rc != 0 or not rep:
        raise vlib.Infra("Trace_Fits failed on %s:\n%s" % (label, r2.out[-2500:]))
    return rep[-1]["deviations"]


def run_c06(pid, tier, seed, replay=None):
    ck = vlib.Check(pid, tier, seed)
    wd = vlib.workdir("c06")
    try:
        res = vlib.run_tlc("MC_FitsLayout", "MC_FitsLayout.cfg", tag="mcfits", timeout=1500)
        if res.rc != 0 or res.violated:
            raise vlib.Infra("MC_FitsLayout failed: %s\n%s" % (res.violated, res.out[-1500:]))
        ck.add_tlc("MC_FitsLayout", res)
        exe = vlib.build_driver("fits_driver", "asan")
        # the layout log carries whole tables and whole files: it is produced and judged in batches of 45 tables so that neither
        # this process nor TLC has to hold more than one batch
        nrows, first = 0, None
        for batch in range(1 if tier == "quick" else 8):
            log = os.path.join(wd, "layout.ndjson")
            rc, so, err, _ = vlib.run_driver(exe, ["layout", "45", str(seed if batch == 0 else seed * 1000 + batch), log], timeout=3000)
            if rc != 0:
                ck.violation({"class": "crash"}, {"what": "fits driver died", "stderr": err[-3000:]})
                return ck.finish()
            rows = vlib.read_ndjson(log)
            for d in _trace(ck, log, "layout batch %d" % batch, rows):
                ev = rows[d["line"] - 1]
                ck.violation({"class": d["kind"], "op": ev["op"], "variant": ev.get("variant"), "how": ev.get("how")},
                             {"what": "serialisation deviates from FitsLayout: " + d["kind"], "op": ev["op"], "variant": ev.get("variant"), "err": ev.get("err"),
                              "ndim": (ev.get("T") or {}).get("ndim", ev.get("ndim"))})
            nrows += len(rows)
            if first is None and rows and isinstance(rows[0].get("T"), dict):
                first = {"op": rows[0]["op"], "T.ndim": rows[0]["T"].get("ndim"), "F.hdus": [h.get("name") for h in rows[0].get("F", []) if isinstance(h, dict)]}
            del rows
        # shipped reference files keep decoding to the same tables
        ship = os.path.join(wd, "shipped.ndjson")
        rc, so, err, _ = vlib.run_driver(exe, ["shipped", os.path.join(vlib.REPO, "test", "test_data"), ship], timeout=600)
        srows = vlib.read_ndjson(ship) if rc == 0 else []
        golden = json.load(open(GOLDEN)) if os.path.exists(GOLDEN) else {}
        for r in srows:
            g = golden.get(r["file"])
            if not r["ok"]:
                ck.violation({"class": "shipped-unreadable", "file": r["file"]}, r)
            elif g and g != r["digest"]:
                ck.violation({"class": "shipped-decodes-differently", "file": r["file"]}, {"what": "reference file decodes to a different table", "file": r["file"], "digest": r["digest"], "golden": g})
        ck.cov["shipped_files"] = {r["file"]: r["digest"] for r in srows}
        ck.cov["traces_validated_against_impl"] = nrows
        ck.cov["evaluations"] = nrows + len(srows)
        ck.cov["distinct_nontrivial"] = nrows
        ck.cov["rule"] = "per random table (1..9-D; 0..9 keys incl. candidates beginning like structural keywords, one table in ten with 40..120 keys): one write event (memory/disk alternating), one library round trip, five reads of codec-written files (layout, no EXTENTS, no PERIOD, reversed extensions, single ORDER key)"
        if first:
            ck.sample(first)
        return ck.finish(exhaustive=False)
    finally:
        if not os.environ.get("VERIF_KEEP"):
            shutil.rmtree(wd, ignore_errors=True)


def run_c07(pid, tier, seed, replay=None):
    ck = vlib.Check(pid, tier, seed)
    wd = vlib.workdir("c07")
    try:
        cases = []
        res = vlib.run_tlc("Gen_FitsDamage", "Gen_FitsDamage_thorough.cfg", tag="gendmg", sink=cases.append, timeout=1500)
        if res.rc != 0 or res.violated or not cases:
            raise vlib.Infra("Gen_FitsDamage failed: %s\n%s" % (res.violated, res.out[-1500:]))
        ck.add_tlc("Gen_FitsDamage", res)
        singles = [c for c in cases if len(c["muts"]) == 1]
        pairs = [c for c in cases if len(c["muts"]) == 2]
        rnd = random.Random(seed)
        if tier == "quick":
            singles = [c for c in singles if c["base"] <= 2]
            pairs = rnd.sample(pairs, 800)
        else:
            pairs = rnd.sample(pairs, 30000)
        # undamaged files too, up to 9 dimensions: whatever a read returns must survive the battery (the gradient of a table with
        # more than 7 dimensions has to be refused, not attempted)
        intact = [{"base": n, "muts": []} for n in (1, 2, 3, 7, 8, 9)]
        cases = intact + singles + pairs
        cf = os.path.join(wd, "cases.ndjson")
        vlib.write_ndjson(cf, cases)
        exe = vlib.build_driver("fits_driver", "asan")
        log = os.path.join(wd, "damaged.ndjson")
        rc, so, err, _ = vlib.run_driver(exe, ["damaged", cf, str(seed), log], timeout=3300)
        if rc != 0:
            ck.violation({"class": "crash"}, {"what": "fits driver died", "stderr": err[-3000:]})
            return ck.finish()
        rows = vlib.read_ndjson(log)
        for d in _trace(ck, log, "damaged", rows):
            ev = rows[d["line"] - 1]
            muts = ev["case"]["muts"] or [{"m": "intact"}]
            ck.violation({"class": d["kind"], "mut": [m["m"] for m in muts], "how": ev["how"], "battery": ev.get("battery", "").split(":")[0],
                          "key": muts[0].get("key"), "val": muts[0].get("val"), "hdu": muts[0].get("hdu"),
                          "in_cfitsio_mem_read": "in mem_read" in ev.get("detail", "")},
                         {"what": "reader outcome violates C07: " + d["kind"], "case": ev["case"], "how": ev["how"], "ok": ev["ok"], "W": ev.get("W"), "battery": ev.get("battery"), "detail": ev.get("detail", "")[:700]})
        ck.cov["traces_validated_against_impl"] = len(rows)
        ck.cov["evaluations"] = len(rows)
        ck.cov["distinct_nontrivial"] = len(cases)
        ck.cov["outcomes"] = {"rejected": sum(1 for r in rows if not r["ok"]), "loaded": sum(1 for r in rows if r["ok"])}
        ck.cov["rule"] = "every single mutation of the catalogue (header cards, axes, BITPIX, HDU drop/swap/rename/duplicate/resize, knot values, truncation, byte flips, foreign files) on 1..3-D base files and a seeded sample of ordered pairs; each read through read_fits, read_fits_mem, readsplinefitstable, readsplinefitstable_mem"
        ck.sample(cases[len(cases) // 3])
        return ck.finish(exhaustive=False)
    finally:
        if not os.environ.get("VERIF_KEEP"):
            shutil.rmtree(wd, ignore_errors=True)
