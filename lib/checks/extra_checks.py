"""Beyond the listed properties: behaviour that the specification covers although no listed property names it.
Not registered in MANIFEST.json (there is no property id to report against); run with  bin/check EXTRA.

stack: spec/Stack.tla (the stacking constructor), model-checked by MC_Stack (well-formedness, interpolation at the
       coordinates for stack order 1, a stack of copies reproduces the table, unstackable tables refused) and replayed on
       the real constructor by harness/stack_driver.cpp (exact attributes, exact values, FITS round trip of the result).
"""
import os, shutil
import vlib


def run(pid, tier, seed, replay=None):
    ck = vlib.Check(pid, tier, seed)
    wd = vlib.workdir("extra")
    try:
        cases = []
        res = vlib.run_tlc("MC_Stack", "MC_Stack.cfg", tag="mcstack", sink=cases.append, timeout=1500)
        if res.rc != 0 or res.violated or not cases:
            raise vlib.Infra("MC_Stack failed: %s\n%s" % (res.violated, res.out[-1500:]))
        ck.add_tlc("MC_Stack", res)
        cf = os.path.join(wd, "cases.ndjson")
        vlib.write_ndjson(cf, cases)
        exe = vlib.build_driver("stack_driver", "asan")
        log = os.path.join(wd, "stack.ndjson")
        rc, so, err, _ = vlib.run_driver(exe, [cf, log], timeout=1500)
        if rc != 0:
            ck.violation({"class": "crash", "what": "stack"}, {"what": "stack driver died", "stderr": err[-2000:]})
            return ck.finish()
        rows = vlib.read_ndjson(log)
        for r in rows:
            c = cases[r["case"]]
            desc = {"coords": c["coords"], "so": c["so"], "kind": c["kind"], "ndim": c["tables"][0]["ndim"]}
            if "crash" in r:
                ck.violation({"class": "stack-crash", "obs": r["crash"]}, dict(desc, detail=r["detail"]))
            elif c["kind"] == "mismatch":
                if not r["refused"]:
                    ck.violation({"class": "stack-accepted-unstackable"}, desc)
            elif r["refused"]:
                ck.violation({"class": "stack-refused"}, desc)
            elif r["diff"] or r["bad"] or not r["roundtrip"]:
                ck.violation({"class": "stack-wrong-table"}, dict(desc, diff=r["diff"], bad=r["bad"], example=r["example"], roundtrip=r["roundtrip"]))
        ck.cov["traces_validated_against_impl"] = len(rows)
        ck.cov["evaluations"] = sum(r.get("points", 0) for r in rows)
        ck.cov["distinct_nontrivial"] = len(cases)
        ck.cov["rule"] = "stacking constructor: 1-D/2-D base shapes x 2..4 tables x stack orders 0..3 x coordinate sets with an integer knot shift x {distinct, copies, mismatching} tables"
        return ck.finish(exhaustive=False)
    finally:
        if not os.environ.get("VERIF_KEEP"):
            shutil.rmtree(wd, ignore_errors=True)
