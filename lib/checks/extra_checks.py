"""Beyond the listed properties: behaviour that the specification covers although no listed property names it.
Not registered in MANIFEST.json (there is no property id to report against); run with  bin/check EXTRA.

stack: spec/Stack.tla (the stacking constructor), model-checked by MC_Stack (well-formedness, interpolation at the
       coordinates for stack order 1, a stack of copies reproduces the table, unstackable tables refused) and replayed on
       the real constructor by harness/stack_driver.cpp (exact attributes, exact values, FITS round trip of the result).

sample: spec/Sample.tla (splinetable::sample, the Metropolis-Hastings sampler of detail/sample.h) as a machine with one action per
       call the sampler makes to its collaborators; MC_Sample checks usable results, support preservation, call accounting and
       detailed balance of the transition kernel in exact rationals (MC_Sample_seeded: the proposal ratio the wrong way round
       must violate detailed balance); harness/sample_driver.cpp scripts the proposal distribution and the random number
       generator (template parameters of sample()) and logs every call; Trace_Sample replays the logs (12 configurations: 1 and 2
       sampled dimensions, identity / square / coordinate-dependent transform, derivative masks, extents inside and wider than
       the knot range, 0..3 results, burn-in 0..2).
"""
import os, shutil
import vlib


def _sample(ck, wd, tier, seed):
    res = vlib.run_tlc("MC_Sample", "MC_Sample.cfg", tag="mcsample", timeout=900)
    if res.rc != 0 or res.violated:
        raise vlib.Infra("MC_Sample failed: %s\n%s" % (res.violated, res.out[-1500:]))
    ck.add_tlc("MC_Sample", res)
    bad = vlib.run_tlc("MC_Sample", "MC_Sample_seeded.cfg", tag="mcsamplebad", timeout=900)
    # a constant-level invariant that is false is reported by TLC as "The invariant of X is equal to FALSE"
    if bad.violated != "DetailedBalance" and "invariant of DetailedBalance is equal to FALSE" not in bad.out:
        raise vlib.Infra("MC_Sample_seeded (proposal ratio inverted) did not violate DetailedBalance: the model check is vacuous\n" + bad.out[-1500:])
    exe = vlib.build_driver("sample_driver", "asan")
    total = 0
    for cfg in range(12):
        log = os.path.join(wd, "sample%d.ndjson" % cfg)
        rc, so, err, _ = vlib.run_driver(exe, [str(cfg), str(60 if tier == "quick" else 600), str(seed), log], timeout=600)
        if rc != 0:
            ck.violation({"class": "sample-crash", "config": cfg}, {"what": "sample driver died", "rc": rc, "stderr": err[-2000:]})
            continue
        lines = [l for l in open(log)]
        rep = []
        r2 = vlib.run_tlc("Trace_Sample", "Trace_Sample.cfg", tag="trsample", workers=1, env={"TRACE": log}, sink=rep.append, timeout=1500)
        if r2.violated == "TInv":
            ck.violation({"class": "sample-state-violates-design-invariant", "config": cfg},
                         {"what": "a state the real sampler passed through violates usable results / support preservation / call accounting", "tlc": r2.out[-2000:]})
            continue
        if r2.rc != 0 or not rep:
            raise vlib.Infra("Trace_Sample failed:\n" + r2.out[-2000:])
        if cfg == 0:
            ck.add_tlc("Trace_Sample (configuration 0 of 12, %d records)" % len(lines), r2)
        best = min(rep, key=lambda r: len(r["deviations"]))
        for d in best["deviations"][:3]:
            k = d["line"] - 1
            while k > 0 and not lines[k].startswith('{"e":"start"'):
                k -= 1
            ck.violation({"class": "sample-" + d["kind"], "config": cfg, "call": d["e"], "model_at": d["pc"]},
                         {"what": "splinetable::sample made a call that Sample.tla does not allow at this point, or ended with other results",
                          "record": lines[d["line"] - 1].strip()[:300], "calls_of_this_run_so_far": [l.strip() for l in lines[k:d["line"]]][-12:]})
        total += len(lines)
    return total


def run(pid, tier, seed, replay=None):
    ck = vlib.Check(pid, tier, seed)
    wd = vlib.workdir("extra")
    try:
        cases = []
        res = vlib.run_tlc("MC_Stack", "MC_Stack.cfg", tag="mcstack", sink=cases.append, timeout=1500)
        if res.rc != 0 or res.violated or not cases:
            raise vlib.Infra("MC_Stack failed: %s\n%s" % (res.violated, res.out[-1500:]))
        ck.add_tlc("MC_Stack", res)
        cf = os.path.join(wd, "cases.ndjson")
        vlib.write_ndjson(cf, cases)
        exe = vlib.build_driver("stack_driver", "asan")
        log = os.path.join(wd, "stack.ndjson")
        rc, so, err, _ = vlib.run_driver(exe, [cf, log], timeout=1500)
        if rc != 0:
            ck.violation({"class": "crash", "what": "stack"}, {"what": "stack driver died", "stderr": err[-2000:]})
            return ck.finish()
        rows = vlib.read_ndjson(log)
        for r in rows:
            c = cases[r["case"]]
            desc = {"coords": c["coords"], "so": c["so"], "kind": c["kind"], "ndim": c["tables"][0]["ndim"]}
            if "crash" in r:
                ck.violation({"class": "stack-crash", "obs": r["crash"]}, dict(desc, detail=r["detail"]))
            elif c["kind"] == "mismatch":
                if not r["refused"]:
                    ck.violation({"class": "stack-accepted-unstackable"}, desc)
            elif r["refused"]:
                ck.violation({"class": "stack-refused"}, desc)
            elif r["diff"] or r["bad"] or not r["roundtrip"]:
                ck.violation({"class": "stack-wrong-table"}, dict(desc, diff=r["diff"], bad=r["bad"], example=r["example"], roundtrip=r["roundtrip"]))
        nsample = _sample(ck, wd, tier, seed)
        ck.cov["sampler_calls_trace_validated"] = nsample
        ck.cov["traces_validated_against_impl"] = len(rows)
        ck.cov["evaluations"] = sum(r.get("points", 0) for r in rows)
        ck.cov["distinct_nontrivial"] = len(cases)
        ck.cov["rule"] = "stacking constructor: 1-D/2-D base shapes x 2..4 tables x stack orders 0..3 x coordinate sets with an integer knot shift x {distinct, copies, mismatching} tables; sampler: 12 configurations x scripted runs, every call to the proposal distribution and the generator validated"
        return ck.finish(exhaustive=False)
    finally:
        if not os.environ.get("VERIF_KEEP"):
            shutil.rmtree(wd, ignore_errors=True)
