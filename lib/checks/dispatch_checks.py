"""C03: path independence.  spec/Dispatch.tla enumerates dimension counts 1..9 x order patterns (every arm of
get_evaluator's decision table); the driver evaluates each configuration through every path in a build with and a
build without PHOTOSPLINE_NO_EVAL_TEMPLATES; Trace_Dispatch requires identical bits per group of paths, and the two
builds must agree with each other bit for bit."""
import os, json, shutil
import vlib


def run(pid, tier, seed, replay=None):
    ck = vlib.Check(pid, tier, seed)
    wd = vlib.workdir("c03")
    try:
        cfgs = []
        res = vlib.run_tlc("Dispatch", "MC_Dispatch_%s.cfg" % tier, tag="dispatch", workers=4, sink=cfgs.append, timeout=600)
        if res.rc != 0 or res.violated or not cfgs:
            raise vlib.Infra("Dispatch model failed: %s\n%s" % (res.violated, res.out[-1500:]))
        ck.add_tlc("Dispatch", res)
        cfgs.sort(key=lambda c: (c["nd"], c["ord"]))
        if tier == "quick":       # 9-D order 4/5 tables cost seconds per evaluation: thorough only
            cfgs = [c for c in cfgs if not (c["nd"] >= 8 and max(c["ord"]) >= 4)]
        cf = os.path.join(wd, "cfgs.ndjson")
        vlib.write_ndjson(cf, cfgs)
        logs = {}
        variants = ["asan"] if tier == "quick" else ["asan", "opt"]
        nev = 0
        for v in variants:
            for name, defs, tag in (("templates", [], ""), ("notemplates", ["-DPHOTOSPLINE_NO_EVAL_TEMPLATES"], "-notmpl")):
                exe = vlib.build_driver("dispatch_driver", v, cdefs=defs, tag=tag)
                log = os.path.join(wd, "%s-%s.ndjson" % (v, name))
                rc, so, err, _ = vlib.run_driver(exe, [cf, str(seed), log], timeout=3000)
                if rc != 0:
                    ck.violation({"class": "crash", "build": name}, {"what": "dispatch driver died", "stderr": err[-3000:]})
                    continue
                rows = vlib.read_ndjson(log)
                logs[(v, name)] = rows
                nev += len(rows)
                rep = []
                r2 = vlib.run_tlc("Trace_Dispatch", "Trace_Dispatch.cfg", tag="trdisp", workers=1, env={"TRACE": log}, sink=rep.append, timeout=1500)
                ck.add_tlc("Trace_Dispatch (%s, %s)" % (v, name), r2)
                if r2.rc != 0 or not rep:
                    raise vlib.Infra("Trace_Dispatch failed:\n" + r2.out[-2000:])
                for d in rep[-1]["deviations"]:
                    ev = rows[d["line"] - 1]
                    ck.violation({"class": d["kind"], "build": name, "nd": ev["nd"]},
                                 {"what": "paths disagree (%s)" % d["kind"], "nd": ev["nd"], "ord": ev["ord"], "pt": ev["pt"], "bits": ev.get(d["kind"]), "variant": v})
                # model drift: which configurations fall back to the generic core
                spec_generic = {i: c["generic_t"] for i, c in enumerate(cfgs)}
                for ev in rows:
                    want = True if name == "notemplates" else spec_generic[ev["cfg"]]
                    if bool(ev["generic_f"]) != want:
                        ck.drift("get_evaluator selected %s core for nd=%d ord=%s (%s build); Dispatch.tla says %s" % (
                            "generic" if ev["generic_f"] else "specialised", ev["nd"], ev["ord"], name, "generic" if want else "specialised"))
                        break
            a, b = logs.get((v, "templates")), logs.get((v, "notemplates"))
            if a and b:
                for x, y in zip(a, b):
                    for g in ("fvalue", "dvalue", "fmask", "dmask", "fgrad", "dgrad", "fderiv", "centers"):
                        if g in x and g in y and x[g][0] != y[g][0]:
                            ck.violation({"class": "cross-build-" + g, "nd": x["nd"]},
                                         {"what": "templated and PHOTOSPLINE_NO_EVAL_TEMPLATES builds return different bits", "nd": x["nd"], "ord": x["ord"], "pt": x["pt"],
                                          "templates": x[g][0], "notemplates": y[g][0]})
        arms = sorted({(c["routine"], c["nd"]) for c in cfgs})
        ck.cov["dispatch_arms_exercised"] = ["%s/%d" % a for a in arms]
        ck.cov["traces_validated_against_impl"] = nev
        ck.cov["evaluations"] = nev * 25
        ck.cov["distinct_nontrivial"] = len(cfgs)
        ck.cov["rule"] = "one configuration per TLC state (dimension count x order pattern), two axis-length variants, five points (interior, margins, on-knot, top of support, random)"
        ck.sample(cfgs[len(cfgs) // 2])
        return ck.finish(exhaustive=False)
    finally:
        if not os.environ.get("VERIF_KEEP"):
            shutil.rmtree(wd, ignore_errors=True)
