"""C11: the exported NNLS solvers against spec/Nnls.tla.  TLC enumerates small integer SPD systems (n <= 3), proves on
each that exactly one active set satisfies KKT and emits the exact minimiser (Cramer's rule in rationals).  The driver
runs nnls_normal_block3 / _block / _block_updown / nnls_lawson_hanson (normal and least-squares form) on every system
and on exact power-of-two diagonal rescalings, and on random dense/sparse, degenerate and badly scaled systems (n <= 12
with an active-set reference in long double, n <= 200 through the KKT residual); Trace_Nnls judges each result."""
import os, json, shutil, random
import vlib


def run(pid, tier, seed, replay=None):
    ck = vlib.Check(pid, tier, seed)
    wd = vlib.workdir("c11")
    try:
        systems = []
        res = vlib.run_tlc("MC_Nnls", "MC_Nnls_%s.cfg" % tier, tag="mcnnls", sink=systems.append, timeout=3300, xmx="12g")
        if res.rc != 0 or res.violated or not systems:
            raise vlib.Infra("MC_Nnls failed: %s\n%s" % (res.violated, res.out[-1500:]))
        ck.add_tlc("MC_Nnls", res)
        rnd = random.Random(seed)
        if tier == "quick":
            small = [s for s in systems if s["n"] <= 2]
            big = [s for s in systems if s["n"] == 3]
            systems = small + rnd.sample(big, 4000)
        sf = os.path.join(wd, "systems.ndjson")
        vlib.write_ndjson(sf, systems)
        ck.sample(systems[len(systems) // 2])
        exe = vlib.build_driver("nnls_driver", "asan")
        rows_all = []
        for mode, arg in (("small", sf), ("random", str(300 if tier == "quick" else 6000))):
            log = os.path.join(wd, mode + ".ndjson")
            rc, so, err, _ = vlib.run_driver(exe, [mode, arg, str(seed), log], timeout=3300, env={"OMP_NUM_THREADS": "2"})
            if rc != 0:
                cls = "hang" if "HANG" in err else "crash"
                ck.violation({"class": cls, "mode": mode}, {"what": "nnls driver ended abnormally (%s)" % cls, "stderr": err[-2500:]})
                continue
            rows = vlib.read_ndjson(log)
            rows_all += rows
            rep = []
            r2 = vlib.run_tlc("Trace_Nnls", "Trace_Nnls.cfg", tag="trnnls", workers=1, env={"TRACE": log}, sink=rep.append, timeout=3000, xmx="8g")
            ck.add_tlc("Trace_Nnls (%s, %d results)" % (mode, len(rows)), r2)
            if r2.rc != 0 or not rep:
                raise vlib.Infra("Trace_Nnls failed:\n" + r2.out[-2000:])
            for d in rep[-1]["deviations"]:
                ev = rows[d["line"] - 1]
                ck.violation({"class": d["kind"], "solver": ev["solver"], "mode": mode, "n_class": "small" if ev["n"] <= 3 else ("medium" if ev["n"] <= 12 else "large")},
                             {"what": "solver result violates C11: " + d["kind"], "event": {k: ev[k] for k in ev if k not in ("x", "g")} if ev["n"] > 12 else ev})
        ck.cov["traces_validated_against_impl"] = len(rows_all)
        ck.cov["evaluations"] = len(rows_all)
        ck.cov["distinct_nontrivial"] = len(systems) + (300 if tier == "quick" else 6000)
        ck.cov["rule"] = "all TLC-enumerated integer SPD systems of size 1..2 and a seeded sample (quick) / all (thorough) of size 3, each also under power-of-two diagonal rescaling; random systems n = 2..12 (dense, degenerate, badly scaled; active-set reference) and sparse n = 20..200 (KKT residual)"
        return ck.finish(exhaustive=False)
    finally:
        if not os.environ.get("VERIF_KEEP"):
            shutil.rmtree(wd, ignore_errors=True)
