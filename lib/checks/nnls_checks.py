"""C11: the exported NNLS solvers against spec/Nnls.tla.  TLC enumerates small integer SPD systems (n <= 3), proves on
each that exactly one active set satisfies KKT and emits the exact minimiser (Cramer's rule in rationals).  The driver
runs nnls_normal_block3 / _block / _block_updown / nnls_lawson_hanson (normal and least-squares form) on every system
and on exact power-of-two diagonal rescalings, and on random dense/sparse, degenerate and badly scaled systems (n <= 12
with an active-set reference in long double, n <= 200 through the KKT residual); Trace_Nnls judges each result.
The algorithm of nnls_normal_block3 + walk_descents is itself a TLA+ step machine (spec/Block3.tla, model-checked by
MC_Block3: termination, optimality at termination, monotone descent on all enumerated systems); the hook
photospline_verif_block3 records every phase of the real solver and Trace_Block3 requires each record to be a step of
the model from the model's current state."""
import os, json, shutil, random
import vlib


def _block3_traces(ck, wd, exe, sf, nsys, tier, seed):
    # every recorded phase of the real solver must be a step of Block3 from the model's current state (Trace_Block3)
    # the trace specification replays about 70000 records a minute on one worker: at most ~60000 executions
    stride = 8 if tier == "quick" else max(1, -(-nsys // 60000))
    tr = os.path.join(wd, "block3.ndjson")
    rc, so, err, _ = vlib.run_driver(exe, ["trace", sf, str(stride), str(seed % stride), tr], timeout=1500, env={"OMP_NUM_THREADS": "2"})
    if rc != 0:
        cls = "hang" if "HANG" in err else "crash"
        ck.violation({"class": cls, "mode": "trace"}, {"what": "nnls driver ended abnormally while tracing block3 (%s)" % cls, "stderr": err[-2500:]})
        return 0
    # a fixed catalogue of 3x3 / 4x4 systems on which the solver takes the walk_descents branch (rare among the enumerated
    # systems): found by a one-off search, kept in spec/block3_walk_systems.ndjson, traced completely in both tiers
    tr2 = os.path.join(wd, "block3w.ndjson")
    rc, so, err, _ = vlib.run_driver(exe, ["trace", os.path.join(vlib.SPEC, "block3_walk_systems.ndjson"), "1", "0", tr2], timeout=900, env={"OMP_NUM_THREADS": "2"})
    if rc != 0:
        cls = "hang" if "HANG" in err else "crash"
        ck.violation({"class": cls, "mode": "trace"}, {"what": "nnls driver ended abnormally while tracing block3 on the walk catalogue (%s)" % cls, "stderr": err[-2500:]})
        return 0
    with open(tr, "a") as f:
        f.write(open(tr2).read())
    lines = [l for l in open(tr)]
    import collections
    ck.cov["block3_phase_counts"] = dict(collections.Counter(json.loads(l)["e"] for l in lines))
    nexec = sum(1 for l in lines if l.startswith('{"e":"start"'))
    if nexec == 0 or not any(l.startswith('{"e":"release"') for l in lines):
        # the hook is not compiled in / not called: the binding is gone - that is an infrastructure problem, not a verdict
        raise vlib.Infra("no block3 trace records: hook photospline_verif_block3 missing from src/fitter/nnls.c?")
    rep = []
    r2 = vlib.run_tlc("Trace_Block3", "Trace_Block3.cfg", tag="trb3", workers=1, env={"TRACE": tr}, sink=rep.append, timeout=3300, xmx="8g")
    ck.add_tlc("Trace_Block3 (%d executions, %d records)" % (nexec, len(lines)), r2)
    if r2.violated == "TInv":
        ck.violation({"class": "block3-state-violates-design-invariant"}, {"what": "a state the real solver passed through violates NonNegative / Consistent / Optimal", "tlc": r2.out[-2500:]})
        return nexec
    if r2.rc != 0 or not rep:
        if ck.violations:
            # the results were already judged wrong above; a trace of such a run may hold values the trace specification cannot
            # evaluate - the verdict stands, the trace is reported as drift
            ck.drift("Trace_Block3 could not evaluate the recorded trace of a run whose results violate the property: " + r2.out[-600:])
            return nexec
        raise vlib.Infra("Trace_Block3 failed:\n" + r2.out[-2000:])
    best = min(rep, key=lambda r: len(r["deviations"]))
    # A step that Block3.tla does not have means that the code no longer follows the specified algorithm.  That is not by
    # itself a violation of C11 (another correct active-set strategy would also deviate): it is reported as drift, with the
    # first records, and the verdict on the property comes from the results (KKT, distance to the exact minimiser) above.
    ck.cov["block3_executions_not_explained_by_the_algorithm_spec"] = len(best["deviations"])
    for d in best["deviations"][:5]:
        k = d["line"] - 1          # find the execution this record belongs to
        while k > 0 and not lines[k].startswith('{"e":"start"'):
            k -= 1
        ck.drift("nnls_normal_block3 took a step that Block3.tla does not have (phase %s, model at %s): system %s record %s" % (
            d["e"], d["pc"], lines[k].strip()[:200], lines[d["line"] - 1].strip()[:300]))
    return nexec


def _lh_traces(ck, wd, exe, sf, nsys, tier, seed):
    # nnls_lawson_hanson: model-checked transcription (MC_LawsonHanson) and per-phase trace validation (Trace_LH) through the
    # second hook of nnls.c; deviations are drift (another correct pivoting rule would deviate too), ties are counted
    r = vlib.run_tlc("MC_LawsonHanson", "MC_LawsonHanson_quick.cfg" if tier == "quick" else "MC_LawsonHanson.cfg", tag="mclh", timeout=3300, xmx="10g")
    if r.rc != 0 or r.violated:
        raise vlib.Infra("MC_LawsonHanson did not model-check cleanly: %s\n%s" % (r.violated, r.out[-2000:]))
    ck.add_tlc("MC_LawsonHanson (%s)" % ("n <= 2" if tier == "quick" else "n <= 3"), r)
    # vacuity guard and documented finding beyond the listed property: with an unconstrained trailing coordinate (npos < ncol)
    # the algorithm can stop at x = 0 without ever solving for the free coordinate; the model finds it, Optimal is not vacuous
    rf = vlib.run_tlc("MC_LawsonHanson", "MC_LawsonHanson_free.cfg", tag="mclhf", timeout=900, xmx="6g")
    ck.cov["lawson_hanson_partially_constrained_counterexample_found"] = rf.violated == "Inv"
    if rf.violated != "Inv":
        raise vlib.Infra("MC_LawsonHanson_free.cfg no longer violates Inv: the Optimal invariant may be vacuous (or the model of the start of the algorithm changed)")
    # nnls_normal_block (block principal pivoting with Murty fallback and a 3n iteration limit): model-checked transcription;
    # bound to the code at result level only (no hook), by the replay of the same catalogue above
    rb = vlib.run_tlc("MC_BlockPivot", "MC_BlockPivot_quick.cfg" if tier == "quick" else "MC_BlockPivot.cfg", tag="mcbp", timeout=3300, xmx="10g")
    if rb.rc != 0 or rb.violated:
        raise vlib.Infra("MC_BlockPivot did not model-check cleanly: %s\n%s" % (rb.violated, rb.out[-2000:]))
    ck.add_tlc("MC_BlockPivot (%s)" % ("n <= 2, wide catalogue" if tier == "quick" else "n <= 3"), rb)
    rs = vlib.run_tlc("MC_BlockPivot", "MC_BlockPivot_short.cfg", tag="mcbps", timeout=900, xmx="6g")
    ck.cov["block_pivot_iteration_limit_n_counterexample_found"] = rs.violated == "Inv"
    if rs.violated != "Inv":
        raise vlib.Infra("MC_BlockPivot_short.cfg (iteration limit n instead of 3n) no longer violates Inv: CapNeverHit may be vacuous")
    stride = 8 if tier == "quick" else max(1, -(-nsys // 60000))
    tr = os.path.join(wd, "lh.ndjson")
    rc, so, err, _ = vlib.run_driver(exe, ["tracelh", sf, str(stride), str(seed % stride), tr], timeout=1500, env={"OMP_NUM_THREADS": "2"})
    if rc != 0:
        cls = "hang" if "HANG" in err else "crash"
        ck.violation({"class": cls, "mode": "tracelh"}, {"what": "nnls driver ended abnormally while tracing nnls_lawson_hanson (%s)" % cls, "stderr": err[-2500:]})
        return 0
    lines = [l for l in open(tr)]
    nexec = sum(1 for l in lines if l.startswith('{"e":"start"'))
    if nexec == 0 or not any(l.startswith('{"e":"freed"') for l in lines):
        raise vlib.Infra("no Lawson-Hanson trace records: hook photospline_verif_lh missing from src/fitter/nnls.c?")
    rep = []
    r2 = vlib.run_tlc("Trace_LH", "Trace_LH.cfg", tag="trlh", workers=1, env={"TRACE": tr}, sink=rep.append, timeout=3300, xmx="8g")
    ck.add_tlc("Trace_LH (%d executions, %d records)" % (nexec, len(lines)), r2)
    if r2.violated == "TInv":
        ck.violation({"class": "lawson-hanson-state-violates-design-invariant"}, {"what": "a state the real solver passed through violates Partition / Feasible / ZeroOnZ", "tlc": r2.out[-2500:]})
        return nexec
    if r2.rc != 0 or not rep:
        if ck.violations:
            ck.drift("Trace_LH could not evaluate the recorded trace of a run whose results violate the property: " + r2.out[-600:])
            return nexec
        raise vlib.Infra("Trace_LH failed:\n" + r2.out[-2000:])
    best = min(rep, key=lambda r: len(r["deviations"]))
    devs = [d for d in best["deviations"] if d["kind"] != "tie-skipped"]
    ck.cov["lawson_hanson_executions_skipped_at_an_exact_tie"] = len(best["deviations"]) - len(devs)
    ck.cov["lawson_hanson_executions_not_explained_by_the_algorithm_spec"] = len(devs)
    for d in devs[:5]:
        k = d["line"] - 1
        while k > 0 and not lines[k].startswith('{"e":"start"'):
            k -= 1
        ck.drift("nnls_lawson_hanson took a step that LawsonHanson.tla does not have (phase %s, model at %s): system %s record %s" % (
            d["e"], d["pc"], lines[k].strip()[:200], lines[d["line"] - 1].strip()[:300]))
    return nexec


def run(pid, tier, seed, replay=None):
    ck = vlib.Check(pid, tier, seed)
    wd = vlib.workdir("c11")
    try:
        systems = []
        res = vlib.run_tlc("MC_Nnls", "MC_Nnls_%s.cfg" % tier, tag="mcnnls", sink=systems.append, timeout=3300, xmx="12g")
        if res.rc != 0 or res.violated or not systems:
            raise vlib.Infra("MC_Nnls failed: %s\n%s" % (res.violated, res.out[-1500:]))
        ck.add_tlc("MC_Nnls", res)
        rnd = random.Random(seed)
        # all systems of size 1..2 and a seeded sample of size 3 (every system is run through five solver variants under several
        # rescalings and judged by a single-worker trace specification: 4000 / 40000 keep that inside minutes / an hour)
        small = [s for s in systems if s["n"] <= 2]
        big = [s for s in systems if s["n"] == 3]
        nbig = 4000 if tier == "quick" else 40000
        ck.cov["systems_enumerated_by_tlc"] = len(systems)
        systems = small + (rnd.sample(big, nbig) if len(big) > nbig else big)
        sf = os.path.join(wd, "systems.ndjson")
        vlib.write_ndjson(sf, systems)
        ck.sample(systems[len(systems) // 2])
        exe = vlib.build_driver("nnls_driver", "asan")
        rows_all = []
        for mode, arg in (("small", sf), ("random", str(300 if tier == "quick" else 6000))):
            log = os.path.join(wd, mode + ".ndjson")
            rc, so, err, _ = vlib.run_driver(exe, [mode, arg, str(seed), log], timeout=3300, env={"OMP_NUM_THREADS": "2"})
            if rc != 0:
                cls = "hang" if "HANG" in err else "crash"
                ck.violation({"class": cls, "mode": mode}, {"what": "nnls driver ended abnormally (%s)" % cls, "stderr": err[-2500:]})
                continue
            rows = vlib.read_ndjson(log)
            rows_all += rows
            rep = []
            r2 = vlib.run_tlc("Trace_Nnls", "Trace_Nnls.cfg", tag="trnnls", workers=1, env={"TRACE": log}, sink=rep.append, timeout=3000, xmx="8g")
            ck.add_tlc("Trace_Nnls (%s, %d results)" % (mode, len(rows)), r2)
            if r2.rc != 0 or not rep:
                raise vlib.Infra("Trace_Nnls failed:\n" + r2.out[-2000:])
            for d in rep[-1]["deviations"]:
                ev = rows[d["line"] - 1]
                ck.violation({"class": d["kind"], "solver": ev["solver"], "mode": mode, "n_class": "small" if ev["n"] <= 3 else ("medium" if ev["n"] <= 12 else "large")},
                             {"what": "solver result violates C11: " + d["kind"], "event": {k: ev[k] for k in ev if k not in ("x", "g")} if ev["n"] > 12 else ev})
        # --- the algorithm as a TLA+ step machine: termination, optimality at termination, monotone descent
        r3 = vlib.run_tlc("MC_Block3", "MC_Block3_quick.cfg" if tier == "quick" else "MC_Block3.cfg", tag="mcb3", timeout=3300, xmx="10g")
        if r3.rc != 0 or r3.violated:
            raise vlib.Infra("MC_Block3 did not model-check cleanly: %s\n%s" % (r3.violated, r3.out[-2000:]))
        ck.add_tlc("MC_Block3 (%s)" % ("n <= 2, wide catalogue" if tier == "quick" else "n <= 3"), r3)
        if tier != "quick":
            # vacuity guard: with the original termination test the same invariant has a counterexample
            r4 = vlib.run_tlc("MC_Block3", "MC_Block3_original.cfg", tag="mcb3o", timeout=1500, xmx="10g")
            ck.cov["original_termination_test_counterexample_found"] = r4.violated == "Inv"
            if r4.violated != "Inv":
                raise vlib.Infra("MC_Block3_original.cfg no longer finds the known counterexample: the Optimal invariant may be vacuous")
        # --- the algorithm itself: per-phase trace of nnls_normal_block3 (hook in nnls.c) against spec/Block3.tla
        ck.cov["lawson_hanson_executions_trace_validated"] = _lh_traces(ck, wd, exe, sf, len(systems), tier, seed)
        ntr = _block3_traces(ck, wd, exe, sf, len(systems), tier, seed)
        ck.cov["block3_executions_trace_validated"] = ntr
        ck.cov["traces_validated_against_impl"] = len(rows_all)
        ck.cov["evaluations"] = len(rows_all)
        ck.cov["distinct_nontrivial"] = len(systems) + (300 if tier == "quick" else 6000)
        ck.cov["rule"] = "all TLC-enumerated integer SPD systems of size 1..2 and a seeded sample of size 3 (4000 quick / 40000 thorough), each also under power-of-two diagonal rescaling; random systems n = 2..12 (dense, degenerate, badly scaled; active-set reference) and sparse n = 20..200 (KKT residual)"
        return ck.finish(exhaustive=False)
    finally:
        if not os.environ.get("VERIF_KEEP"):
            shutil.rmtree(wd, ignore_errors=True)
