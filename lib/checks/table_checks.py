"""C15: permuteDimensions as Table!Permute (spec/Table.tla).

TLC (MC_Permute): for every shape of 1..4 dimensions and every permutation / malformed argument, the permuted
table is well-formed, the inverse restores it, and (<= 3-D) the represented function is unchanged at permuted
points in exact rationals.  The driver permutes real tables (every permutation of 1..5 dimensions, sampled 6-D;
pairwise different axis lengths, orders, extents, periods; C++ and C entry points; malformed arguments), logs the
projected table before and after every call, and Trace_Table judges every call field by field.
"""
import os, json, shutil
import vlib


def run(pid, tier, seed, replay=None):
    ck = vlib.Check(pid, tier, seed)
    wd = vlib.workdir("c15")
    try:
        res = vlib.run_tlc("MC_Permute", "MC_Permute.cfg", tag="mcperm", timeout=1500)
        if res.rc != 0 or res.violated:
            raise vlib.Infra("MC_Permute failed: %s\n%s" % (res.violated, res.out[-1500:]))
        ck.add_tlc("MC_Permute", res)
        exe = vlib.build_driver("table_driver", "asan")
        log = os.path.join(wd, "permute.ndjson")
        maxdim = 6
        rc, so, err, _ = vlib.run_driver(exe, ["permute", str(maxdim), str(seed), str(40 if tier == "quick" else 200), log], timeout=1500)
        if rc != 0:
            ck.violation({"class": "crash"}, {"what": "permute driver died", "stderr": err[-3000:]})
            return ck.finish()
        summ = json.loads(so.strip().splitlines()[-1])
        rows = vlib.read_ndjson(log)
        for r in rows:
            if r["op"] == "numeric":
                ck.violation({"class": "numeric", "what": r["what"]}, r)
        tr = os.path.join(wd, "trace.ndjson")
        vlib.write_ndjson(tr, [r for r in rows if r["op"] == "permute"])
        rep = []
        res = vlib.run_tlc("Trace_Table", "Trace_Table.cfg", tag="trtable", workers=1, env={"TRACE": tr}, timeout=2400,
                           sink=rep.append, xmx="8g")
        ck.add_tlc("Trace_Table (%d calls)" % summ["calls"], res)
        if res.rc != 0 or not rep:
            raise vlib.Infra("Trace_Table failed:\n" + res.out[-2000:])
        for d in rep[-1]["deviations"]:
            ck.violation({"class": d["kind"], "ndim": d["ndim"]}, {"what": "permuteDimensions deviates from Table!PermuteOp in field/outcome " + d["kind"],
                                                                  "perm": d["perm"], "line": d["line"]})
        ck.cov["traces_validated_against_impl"] = summ["calls"]
        ck.cov["evaluations"] = summ["calls"] + summ["numeric_checks"]
        ck.cov["distinct_nontrivial"] = summ["calls"]
        ck.cov["rule"] = "every permutation of 1..5 dimensions and sampled 6-D permutations, each followed by its inverse, plus malformed arguments per dimension count (wrong length, duplicates, out of range incl. 2^16..2^63 offsets, ascending malformed ones; C++ method and C wrapper)"
        first = next((r for r in rows if r.get("op") == "permute"), None)
        if first:
            ck.sample({k: first[k] for k in ("op", "perm", "ok")})
        return ck.finish(exhaustive=True)
    finally:
        if not os.environ.get("VERIF_KEEP"):
            shutil.rmtree(wd, ignore_errors=True)
