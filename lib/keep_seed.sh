#!/bin/sh
# keep a confirmed seeded change under /verif/seeded/<ID>/
# usage: keep_seed.sh <ID> "<checks that catch it / notes>"
ID=$1; D=/tmp/seed/$ID/_seed; T=/verif/seeded/$ID
mkdir -p $T
cp $D/patch.diff $T/patch.diff
for f in demo.cpp demo.c demo.sh build.sh; do [ -f $D/$f ] && cp $D/$f $T/$f; done
python3 - "$ID" "$2" <<'PY'
import json,sys,os
ID,notes=sys.argv[1],sys.argv[2]
d='/tmp/seed/%s/_seed'%ID
m=json.load(open(d+'/meta.json'))
conf=open('/tmp/seed/confirm_%s.txt'%ID).read().strip().splitlines()[-1] if os.path.exists('/tmp/seed/confirm_%s.txt'%ID) else ''
m['confirmed_by_verifier']={'what_i_ran':'lib/confirm_seed.sh %s (scratch worktree: demo without patch, demo with patch, cmake build + full ctest with patch)'%ID,'result':conf}
m['checks']=notes
json.dump(m,open('/verif/seeded/%s/meta.json'%ID,'w'),indent=1)
PY
echo kept $ID
