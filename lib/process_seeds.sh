#!/bin/sh
# confirm fresh sub-agent seeds (worktrees /tmp/seed/<id>) and run the check of their property against them, 5 at a time
# usage: lib/process_seeds.sh <id>...      prints CONFIRM and SEEDRUN lines
for id in "$@"; do echo $id; done | xargs -P 5 -I{} sh -c 'id={}; [ -f /tmp/seed/$id/_seed/patch.diff ] || { echo "MISSING $id"; exit 0; }; sh /verif/lib/confirm_seed.sh $id > /tmp/seed/confirm_$id.txt 2>&1; tail -n 1 /tmp/seed/confirm_$id.txt'
for id in "$@"; do echo $id; done | xargs -P 5 -I{} sh -c 'id={}; c=$(echo $id | cut -c1-3); [ -f /tmp/seed/$id/_seed/patch.diff ] && /verif/lib/seedrun_wt.sh $id $c 2>/dev/null | grep SEEDRUN'
