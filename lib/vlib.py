"""Common machinery for the photospline model-based checks.

Everything here is plain python3 standard library: build the conformance
drivers from /repo's working tree, run TLC, collect the JSON that the
specifications emit, validate traces, match known findings, write evidence.
"""
import hashlib, json, os, re, shutil, subprocess, sys, time, glob, random

VERIF = os.path.dirname(os.path.dirname(os.path.abspath(__file__)))
REPO = os.environ.get("VERIF_REPO", "/repo")
SPEC = os.path.join(VERIF, "spec")
HARNESS = os.path.join(VERIF, "harness")
BUILD = os.path.join(VERIF, ".build")
WORK = os.path.join(VERIF, ".work")
EVID = os.environ.get("VERIF_EVID") or os.path.join(VERIF, "evidence")
REPLAYS = os.environ.get("VERIF_REPLAYS") or os.path.join(VERIF, "replays")
GUARD = "PHOTOSPLINE_VERIF"

NCPU = os.cpu_count() or 4


class Infra(Exception):
    """infrastructure failure (build, JVM, ...): never a property verdict"""


def log(*a):
    print(*a, flush=True)


# --------------------------------------------------------------------------
# building
# --------------------------------------------------------------------------
CXXBASE = ["-std=gnu++11", "-DPHOTOSPLINE_INCLUDES_SPGLAM", "-D" + GUARD,
           "-I" + os.path.join(REPO, "include"), "-I" + os.path.join(REPO, "src/fitter"), "-I/usr/include/suitesparse",
           "-msse2", "-msse3", "-msse4", "-msse4.1", "-msse4.2", "-mno-avx",
           "-Wno-deprecated-declarations", "-Wno-register", "-w"]
CBASE = ["-std=gnu99", "-DPHOTOSPLINE_INCLUDES_SPGLAM", "-D" + GUARD,
         "-I" + os.path.join(REPO, "include"), "-I/usr/include/suitesparse", "-w"]
VARIANTS = {
    # assertions on, sanitizers on
    "asan": ["-O1", "-g", "-fno-omit-frame-pointer", "-fsanitize=address,undefined",
             "-fno-sanitize-recover=undefined", "-fno-sanitize=vla-bound", "-UNDEBUG"],
    # the project's own optimisation level, assertions off like the shipped build
    "opt": ["-O3", "-g", "-DNDEBUG"],
    # thread sanitizer for C12
    "tsan": ["-O1", "-g", "-fsanitize=thread", "-UNDEBUG"],
}
LIBS = ["-lcfitsio", "-lcholmod", "-lspqr", "-llapack", "-lblas", "-lpthread", "-lm", "-ldl"]

CORE_CPP = ["src/core/bspline.cpp", "src/core/bspline_multi.cpp", "src/core/convolve.cpp",
            "src/core/fitsio.cpp", "src/cinter/splinetable.cpp"]
FITTER_C = ["src/fitter/cholesky_solve.c", "src/fitter/glam.c", "src/fitter/nnls.c",
            "src/fitter/splineutil.c"]


def _tree_hash(extra=()):
    h = hashlib.sha256()
    files = []
    for sub in ("include", "src/core", "src/fitter", "src/cinter", "src/tools"):
        for root, _, fs in os.walk(os.path.join(REPO, sub)):
            for f in fs:
                files.append(os.path.join(root, f))
    files += list(extra)
    for f in sorted(files):
        h.update(f.encode())
        try:
            with open(f, "rb") as fh:
                h.update(fh.read())
        except OSError:
            h.update(b"<missing>")
    return h.hexdigest()[:20]


def _run(cmd, **kw):
    return subprocess.run(cmd, stdout=subprocess.PIPE, stderr=subprocess.STDOUT, text=True, **kw)


def build_lib(variant, cdefs=(), tag="", c_include=None, skip_c=()):
    """compile the library sources of /repo's working tree into objects.
    returns (list of object files, dir)"""
    key = _tree_hash() + "-" + variant + tag
    d = os.path.join(BUILD, key)
    stamp = os.path.join(d, "lib.ok")
    objs = []
    jobs = []
    os.makedirs(d, exist_ok=True)
    for src in CORE_CPP:
        o = os.path.join(d, os.path.basename(src) + ".o")
        objs.append(o)
        jobs.append(["g++"] + CXXBASE + VARIANTS[variant] + list(cdefs) + ["-c", os.path.join(REPO, src), "-o", o])
    for src in FITTER_C:
        if src in skip_c:
            continue
        o = os.path.join(d, os.path.basename(src) + ".o")
        objs.append(o)
        inc = ["-include", c_include] if (c_include and src.endswith("cholesky_solve.c")) else []
        jobs.append(["gcc"] + CBASE + VARIANTS[variant] + list(cdefs) + inc + ["-c", os.path.join(REPO, src), "-o", o])
    try:
        os.utime(d, None)      # mark as in use (see _gc_builds)
    except OSError:
        pass
    if os.path.exists(stamp):
        return objs, d
    procs = [(j, subprocess.Popen(j, stdout=subprocess.PIPE, stderr=subprocess.STDOUT, text=True)) for j in jobs]
    for j, p in procs:
        out, _ = p.communicate()
        if p.returncode != 0:
            raise Infra("library build failed: %s\n%s" % (" ".join(j), out[-4000:]))
    open(stamp, "w").write("ok")
    _gc_builds(keep=key)
    return objs, d


def _gc_builds(keep):
    """keep disk use bounded: drop build dirs beyond the 6 newest that have not been used for two hours"""
    try:
        ds = sorted((os.path.getmtime(p), p) for p in glob.glob(os.path.join(BUILD, "*")) if os.path.isdir(p))
        now = time.time()
        for mt, p in ds[:-6]:
            # never remove a directory that was used in the last two hours: another check may be running from it
            if keep not in p and now - mt > 7200:
                shutil.rmtree(p, ignore_errors=True)
    except OSError:
        pass


def build_driver(name, variant="asan", extra=(), cdefs=(), tag="", c_include=None, extra_src=(), link_lib=True,
                 skip_c=(), compile_only_probe=False):
    """build harness/<name>.cpp against the library objects; returns path of the executable"""
    src = os.path.join(HARNESS, name + ".cpp")
    hdrs = glob.glob(os.path.join(HARNESS, "*.h")) + glob.glob(os.path.join(HARNESS, "*.hpp"))
    objs, d = build_lib(variant, cdefs=cdefs, tag=tag, c_include=c_include, skip_c=skip_c) if link_lib else ([], None)
    if d is None:
        d = os.path.join(BUILD, _tree_hash() + "-" + variant + tag)
        os.makedirs(d, exist_ok=True)
    h = hashlib.sha256()
    for f in [src] + sorted(hdrs) + list(extra_src):
        h.update(open(f, "rb").read())
    h.update(" ".join(list(extra) + list(cdefs)).encode())
    exe = os.path.join(d, name + "-" + h.hexdigest()[:12])
    if os.path.exists(exe):
        return exe
    cmd = (["g++"] + CXXBASE + VARIANTS[variant] + list(cdefs) + list(extra) + ["-I" + HARNESS, src] + list(extra_src)
           + objs + ["-o", exe + ".tmp"] + LIBS)
    r = _run(cmd)
    if r.returncode != 0:
        raise Infra("driver build failed (%s):\n%s" % (name, r.stdout[-6000:]))
    os.replace(exe + ".tmp", exe)
    return exe


def compile_probe(code, variant="asan", extra=()):
    """does this snippet, using the library headers, compile? returns (ok, output)"""
    d = os.path.join(WORK, "probe-%d" % os.getpid())
    os.makedirs(d, exist_ok=True)
    f = os.path.join(d, "probe.cpp")
    open(f, "w").write(code)
    r = _run(["g++"] + CXXBASE + ["-O0", "-fsyntax-only"] + list(extra) + ["-I" + HARNESS, f])
    shutil.rmtree(d, ignore_errors=True)
    return r.returncode == 0, r.stdout


# --------------------------------------------------------------------------
# TLC
# --------------------------------------------------------------------------
TLC_JAR = "/opt/veriftools/tla/tla2tools.jar:/opt/veriftools/tla/CommunityModules-deps.jar"


class TlcResult:
    def __init__(self):
        self.rc = None
        self.out = ""
        self.json = []
        self.generated = 0
        self.distinct = 0
        self.depth = 0
        self.violated = None      # name of violated invariant / property, or 'deadlock'
        self.coverage = {}
        self.wall = 0.0
        self.trace = []           # error-trace states as text

    def ok(self):
        return self.rc == 0


def workdir(tag):
    d = os.path.join(WORK, "%s-%d-%d" % (tag, os.getpid(), int(time.time() * 1000) % 100000000))
    os.makedirs(d, exist_ok=True)
    return d


def run_tlc(module, cfg, tag="tlc", workers=None, simulate=None, depth=None, env=None, timeout=1700,
            xmx="8g", extra=(), dfs=False, seed=None, keep_out=True, coverage=False, json_prefix=True,
            sink=None):
    """run TLC on spec/<module>.tla with spec/<cfg>; returns TlcResult.
    JSON lines printed by the spec with PrintT(ToJson(..)) are decoded into .json
    (or handed to sink(obj) one by one when sink is given)."""
    md = workdir(tag)
    cmd = ["java", "-XX:+UseSerialGC", "-Xss64m", "-Xmx" + xmx]
    if dfs:
        cmd.append("-Dtlc2.tool.queue.IStateQueue=StateDeque")
    cmd += ["-cp", TLC_JAR, "tlc2.TLC", "-noGenerateSpecTE", "-metadir", md, "-config", os.path.join(SPEC, cfg)]
    if simulate:
        cmd += ["-simulate", "num=%d" % simulate]
        if depth:
            cmd += ["-depth", str(depth)]
    if seed is not None:
        cmd += ["-seed", str(seed)]
    if coverage:
        cmd += ["-coverage", "1"]
    cmd += ["-workers", str(workers or NCPU)]
    cmd += list(extra)
    cmd.append(os.path.join(SPEC, module + ".tla"))
    e = dict(os.environ)
    e.pop("JAVA_TOOL_OPTIONS", None)
    if env:
        e.update({k: str(v) for k, v in env.items()})
    res = TlcResult()
    t0 = time.time()
    try:
        p = subprocess.Popen(["timeout", str(timeout)] + cmd, stdout=subprocess.PIPE, stderr=subprocess.STDOUT,
                             text=True, env=e, cwd=SPEC)
        outl = []
        # with several workers the order in which states print their JSON is a scheduling accident; the
        # lines are collected, sorted and put in a seed-determined order so that every run with the same
        # VERIF_SEED feeds the drivers the same sequence
        deterministic = (workers or NCPU) != 1
        held = []
        for line in p.stdout:
            if line.startswith('"{') or line.startswith('"['):
                if deterministic:
                    held.append(line)
                    continue
                try:
                    obj = json.loads(json.loads(line))
                    if sink:
                        sink(obj)
                    else:
                        res.json.append(obj)
                    continue
                except ValueError:
                    pass
            outl.append(line)
        p.wait()
        if held:
            held.sort()
            random.Random(1000003 * (seed or 0) + 17).shuffle(held)
            for line in held:
                try:
                    obj = json.loads(json.loads(line))
                except ValueError:
                    outl.append(line)
                    continue
                if sink:
                    sink(obj)
                else:
                    res.json.append(obj)
        res.rc = p.returncode
        res.out = "".join(outl)
    finally:
        shutil.rmtree(md, ignore_errors=True)
    res.wall = time.time() - t0
    m = re.findall(r"(\d+) states generated, (\d+) distinct states found", res.out)
    if m:
        res.generated, res.distinct = int(m[-1][0]), int(m[-1][1])
    m = re.search(r"depth of the complete state graph search is (\d+)", res.out)
    if m:
        res.depth = int(m.group(1))
    m = re.search(r"Invariant (\S+) is violated", res.out)
    if m:
        res.violated = m.group(1)
    elif "Deadlock reached" in res.out:
        res.violated = "deadlock"
    elif re.search(r"Temporal properties were violated|Action property .* is violated", res.out):
        res.violated = "temporal"
    elif re.search(r"Postcondition \S+ .* is false", res.out):
        res.violated = "postcondition"
    for mm in re.finditer(r"^<(\w+) line \d+, col \d+ to line \d+, col \d+ of module (\w+)>: (\d+):(\d+)", res.out, re.M):
        res.coverage[mm.group(1)] = res.coverage.get(mm.group(1), 0) + int(mm.group(3))
    return res


def tlc_or_infra(res, what):
    """TLC exit codes: 0 ok, 12 invariant violation, 11 deadlock, 13 property violation,
    10/2x/15x... infrastructure; treat anything that is not a model verdict as Infra"""
    if res.rc == 0:
        return
    if res.violated:
        return
    raise Infra("TLC failed on %s (rc=%s):\n%s" % (what, res.rc, res.out[-3000:]))


# --------------------------------------------------------------------------
# trace validation: ndjson log -> Trace_<X>.tla
# --------------------------------------------------------------------------
def validate_trace(module, cfg, trace_path, tag="trace", timeout=900, env=None, workers=1, dfs=False, xmx="4g"):
    """run the trace specification over an ndjson log; accepted iff TLC finishes
    without error (the cfg carries POSTCONDITION TraceAccepted and the invariants).
    returns (accepted, TlcResult, info)"""
    e = {"TRACE": trace_path}
    if env:
        e.update(env)
    res = run_tlc(module, cfg, tag=tag, workers=workers, env=e, timeout=timeout, dfs=dfs, xmx=xmx)
    info = {}
    m = re.search(r"TRACE-REJECTED at line (\d+)", res.out)
    if m:
        info["rejected_at"] = int(m.group(1))
    if res.rc == 0 and not res.violated and "TRACE-REJECTED" not in res.out:
        return True, res, info
    if res.violated or "TRACE-REJECTED" in res.out or "Assumption" in res.out:
        return False, res, info
    raise Infra("trace validation infrastructure failure (%s, rc=%s):\n%s" % (module, res.rc, res.out[-3000:]))


# --------------------------------------------------------------------------
# drivers
# --------------------------------------------------------------------------
def run_driver(exe, args=(), stdin_path=None, stdout_path=None, timeout=1200, env=None, preload=None):
    e = dict(os.environ)
    e.setdefault("ASAN_OPTIONS", "detect_leaks=0:abort_on_error=0:allocator_may_return_null=1:detect_stack_use_after_return=0")
    e.setdefault("UBSAN_OPTIONS", "print_stacktrace=1:halt_on_error=1")
    if env:
        e.update({k: str(v) for k, v in env.items()})
    if preload:
        e["LD_PRELOAD"] = preload
    fin = open(stdin_path, "rb") if stdin_path else subprocess.DEVNULL
    fout = open(stdout_path, "wb") if stdout_path else subprocess.PIPE
    t0 = time.time()
    try:
        p = subprocess.run(["timeout", "-k", "5", str(timeout), exe] + list(args), stdin=fin, stdout=fout,
                           stderr=subprocess.PIPE, env=e)
    finally:
        if stdin_path:
            fin.close()
        if stdout_path:
            fout.close()
    return p.returncode, (p.stdout.decode(errors="replace") if not stdout_path else ""), p.stderr.decode(errors="replace"), time.time() - t0


def read_ndjson(path):
    """a driver that is killed (sanitizer abort, watchdog) may leave its last line unfinished: that line is dropped,
    the callers decide from the exit status and the missing summary; a bad line anywhere else is an error"""
    out = []
    with open(path, errors="replace") as f:
        lines = [l.strip() for l in f]
    lines = [l for l in lines if l]
    for i, line in enumerate(lines):
        try:
            out.append(json.loads(line))
        except ValueError:
            if i != len(lines) - 1:
                raise
    return out


def write_ndjson(path, rows):
    with open(path, "w") as f:
        for r in rows:
            f.write(json.dumps(r, separators=(",", ":")) + "\n")


# --------------------------------------------------------------------------
# known findings, violations, evidence
# --------------------------------------------------------------------------
def load_findings(pid):
    p = os.path.join(VERIF, "known_findings.json")
    if not os.path.exists(p):
        return []
    return [f for f in json.load(open(p)).get("findings", []) if f.get("property") == pid and f.get("status") == "open"]


class Check:
    """bookkeeping shared by all property checks"""

    def __init__(self, pid, tier, seed):
        self.pid, self.tier, self.seed = pid, tier, seed
        self.t0 = time.time()
        self.violations = []       # dicts
        self.known_hits = {}       # finding id -> count
        self.findings = load_findings(pid)
        self.cov = {"states": 0, "transitions": 0, "traces_validated_against_impl": 0, "samples": [],
                    "evaluations": 0, "distinct_nontrivial": 0, "rule": "", "tlc_runs": [], "drift": []}
        self.assumptions = []
        self.rng = random.Random(seed)

    def add_tlc(self, name, res):
        self.cov["states"] += res.distinct
        self.cov["transitions"] += res.generated
        self.cov["tlc_runs"].append({"spec": name, "distinct_states": res.distinct, "states_generated": res.generated,
                                     "depth": res.depth, "wall_s": round(res.wall, 2),
                                     "action_coverage": res.coverage or None})

    def sample(self, s, cap=8):
        if len(self.cov["samples"]) < cap:
            self.cov["samples"].append(s)

    def drift(self, what):
        log("DRIFT property=%s what=%s" % (self.pid, what))
        if len(self.cov["drift"]) < 20:
            self.cov["drift"].append(what)

    def violation(self, sig, detail):
        """sig: dict describing the failing observation (matched against known findings)"""
        for f in self.findings:
            m = f.get("match", {})
            if all(_match(sig.get(k), v) for k, v in m.items()):
                self.known_hits[f["id"]] = self.known_hits.get(f["id"], 0) + 1
                return False
        self.violations.append({"sig": sig, "detail": detail})
        return True

    def finish(self, level="model_checking", exhaustive=None, extra_cov=None):
        os.makedirs(EVID, exist_ok=True)
        for f in self.findings:
            if self.known_hits.get(f["id"]):
                log("KNOWN-FINDING: property=%s %s (%d observations)" % (self.pid, f["what"], self.known_hits[f["id"]]))
        cov = dict(self.cov)
        if exhaustive is not None:
            cov["exhaustive"] = exhaustive
        if extra_cov:
            cov.update(extra_cov)
        cov["known_findings_observed"] = self.known_hits
        if not cov["samples"]:
            cov["samples"] = ["(no sample recorded)"]
        replay = None
        if self.violations:
            os.makedirs(REPLAYS, exist_ok=True)
            h = hashlib.sha256(json.dumps(self.violations[:50], sort_keys=True, default=str).encode()).hexdigest()[:10]
            replay = os.path.join(REPLAYS, "%s-%s.ndjson" % (self.pid, h))
            # first line: how to reproduce (the checks are deterministic for a tier and a seed); then the violating inputs
            write_ndjson(replay, [{"replay_of": self.pid, "tier": self.tier, "seed": self.seed,
                                   "how": "bin/check %s --replay <this file> re-runs the check with this tier and seed on /repo's current tree" % self.pid}]
                         + self.violations[:200])
        ev = {"property_id": self.pid, "tier": self.tier, "seed": self.seed, "level": level, "coverage": cov,
              "assumptions": self.assumptions, "wall_s": round(time.time() - self.t0, 2),
              "violations": len(self.violations)}
        with open(os.path.join(EVID, self.pid + ".json"), "w") as f:
            json.dump(ev, f, indent=1, default=str)
        if self.violations:
            for v in self.violations[:5]:
                log("  violation: %s" % json.dumps(v, default=str)[:600])
            log("VIOLATION property=%s replay=%s" % (self.pid, replay))
            return 1
        log("OK property=%s tier=%s states=%d evaluations=%d wall=%.1fs" % (
            self.pid, self.tier, cov["states"], cov["evaluations"], time.time() - self.t0))
        return 0


def _match(val, pat):
    if isinstance(pat, list):
        return val in pat
    if isinstance(pat, dict):
        if "min" in pat and not (val is not None and val >= pat["min"]):
            return False
        if "max" in pat and not (val is not None and val <= pat["max"]):
            return False
        if "re" in pat and not (isinstance(val, str) and re.search(pat["re"], val)):
            return False
        if "contains" in pat and not (isinstance(val, (list, str)) and pat["contains"] in val):
            return False
        return True
    return val == pat


def with_retry(fn):
    """infrastructure errors: retry once, then give up with exit 3 (not a verdict)"""
    try:
        return fn()
    except Infra as e:
        log("INFRA (will retry once): %s" % str(e)[:2000])
        time.sleep(1)
        return fn()
